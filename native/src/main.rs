//! Native helper for the verification runner (built with `--cfg rngs_verif`).
//!   selftest            reference models vs published vectors
//!   (more subcommands are added per property)
mod vectors;
use rngs_harness::ref_xoshiro as rx;

fn fail(msg: &str) -> ! {
    println!("SELFTEST-FAIL {}", msg);
    std::process::exit(1)
}

macro_rules! st32 {
    ($name:expr, $f:path, $n:expr, $v:expr) => {{
        let mut s = [0u32; $n];
        for i in 0..$n {
            s[i] = (i + 1) as u32;
        }
        for (k, &e) in $v.iter().enumerate() {
            let (ns, o) = $f(s);
            if o as u64 != e {
                fail(&format!("{} word {}", $name, k));
            }
            s = ns;
        }
    }};
}
macro_rules! st64 {
    ($name:expr, $f:path, $n:expr, $v:expr) => {{
        let mut s = [0u64; $n];
        for i in 0..$n {
            s[i] = (i + 1) as u64;
        }
        for (k, &e) in $v.iter().enumerate() {
            let (ns, o) = $f(s);
            if o != e {
                fail(&format!("{} word {}", $name, k));
            }
            s = ns;
        }
    }};
}

fn selftest() {
    st32!("xoroshiro64star", rx::xoroshiro64star, 2, vectors::XOROSHIRO64STAR);
    st32!("xoroshiro64starstar", rx::xoroshiro64starstar, 2, vectors::XOROSHIRO64STARSTAR);
    st64!("xoroshiro128plus", rx::xoroshiro128plus, 2, vectors::XOROSHIRO128PLUS);
    st64!("xoroshiro128plusplus", rx::xoroshiro128plusplus, 2, vectors::XOROSHIRO128PLUSPLUS);
    st64!("xoroshiro128starstar", rx::xoroshiro128starstar, 2, vectors::XOROSHIRO128STARSTAR);
    st32!("xoshiro128plus", rx::xoshiro128plus, 4, vectors::XOSHIRO128PLUS);
    st32!("xoshiro128plusplus", rx::xoshiro128plusplus, 4, vectors::XOSHIRO128PLUSPLUS);
    st32!("xoshiro128starstar", rx::xoshiro128starstar, 4, vectors::XOSHIRO128STARSTAR);
    st64!("xoshiro256plus", rx::xoshiro256plus, 4, vectors::XOSHIRO256PLUS);
    st64!("xoshiro256plusplus", rx::xoshiro256plusplus, 4, vectors::XOSHIRO256PLUSPLUS);
    st64!("xoshiro256starstar", rx::xoshiro256starstar, 4, vectors::XOSHIRO256STARSTAR);
    st64!("xoshiro512plus", rx::xoshiro512plus, 8, vectors::XOSHIRO512PLUS);
    st64!("xoshiro512plusplus", rx::xoshiro512plusplus, 8, vectors::XOSHIRO512PLUSPLUS);
    st64!("xoshiro512starstar", rx::xoshiro512starstar, 8, vectors::XOSHIRO512STARSTAR);
    let mut x = vectors::SPLITMIX64_SEED;
    for (k, &e) in vectors::SPLITMIX64.iter().enumerate() {
        let (nx, o) = rx::splitmix64(x);
        if o != e {
            fail(&format!("splitmix64 word {}", k));
        }
        x = nx;
    }
    let mut x = vectors::SPLITMIX64_U32_SEED;
    for (k, &e) in vectors::SPLITMIX64_U32.iter().enumerate() {
        let (nx, o) = rx::splitmix64_mix4(x);
        if o != e {
            fail(&format!("splitmix64 mix4 word {}", k));
        }
        x = nx;
    }
    // Marsaglia's xor128 with the paper's default seed.
    let mut s = [123456789u32, 362436069, 521288629, 88675123];
    let marsaglia = [3701687786u32, 458299110, 2500872618, 3633119408, 516391518];
    for (k, &e) in marsaglia.iter().enumerate() {
        let (ns, o) = rx::xor128(s);
        if o != e {
            fail(&format!("xor128 (Marsaglia default seed) word {}", k));
        }
        s = ns;
    }
    // rand's historical XorShiftRng vector (seed bytes 16, 15, ..., 1).
    let mut s = [0x0d0e0f10u32, 0x090a0b0c, 0x05060708, 0x01020304];
    let xs = [2081028795u32, 620940381, 269070770, 16943764, 854422573, 29242889, 1550291885, 1227154591, 271695242];
    for (k, &e) in xs.iter().enumerate() {
        let (ns, o) = rx::xor128(s);
        if o != e {
            fail(&format!("xor128 (rand vector) word {}", k));
        }
        s = ns;
    }
    // PCG32 seed expansion: rand_core's own value-breakage test
    // (`seed_from_u64(0)` of an 8-byte seed, read as LE u64).
    let mut b = [0u8; 8];
    rx::pcg32_expand(0, &mut b);
    if u64::from_le_bytes(b) != 5029875928683246316 {
        fail("pcg32_expand(0)");
    }
    // HC-128: Wu's test vectors 1 and 2 (first 16 keystream words).
    {
        use rngs_harness::ref_hc128 as rh;
        let v1: [u32; 16] = [0x73150082, 0x3bfd03a0, 0xfb2fd77f, 0xaa63af0e, 0xde122fc6, 0xa7dc29b6, 0x62a68527, 0x8b75ec68,
                             0x9036db1e, 0x81896005, 0x00ade078, 0x491fbf9a, 0x1cdc3013, 0x6c3d6e24, 0x90f664b2, 0x9cd57102];
        let v2: [u32; 4] = [0xc01893d5, 0xb7dbe958, 0x8f65ec98, 0x64176604];
        for (iv0, exp) in [(0u32, &v1[..]), (1u32, &v2[..])] {
            let (mut p, mut q) = ([0u32; 512], [0u32; 512]);
            rh::init([0; 4], [iv0, 0, 0, 0], &mut p, &mut q);
            for (k, &e) in exp.iter().enumerate() {
                if rh::step(&mut p, &mut q, k) != e {
                    fail(&format!("hc128 vector iv0={} word {}", iv0, k));
                }
            }
        }
    }
    // ISAAC: Jenkins' randvect (randinit(TRUE) on an all-zero seed) and the
    // generator used unseeded (one pass), ISAAC-64 unseeded.
    {
        use rngs_harness::ref_isaac as ri;
        let mut g = ri::Isaac { mm: ri::randinit32(&[0; 256], 2), aa: 0, bb: 0, cc: 0, randrsl: [0; 256] };
        // Jenkins' test driver: randinit() runs isaac() once, the print loop runs it again first
        g.isaac();
        g.isaac();
        let rv = [0xf650e4c8u32, 0xe448e96d, 0x98db2fb4];
        for k in 0..3 {
            if g.randrsl[k] != rv[k] {
                fail(&format!("isaac randvect word {}", k));
            }
        }
        let mut g = ri::Isaac { mm: ri::randinit32(&[0; 256], 1), aa: 0, bb: 0, cc: 0, randrsl: [0; 256] };
        g.isaac();
        let un = [0x71D71FD2u32, 0xB54ADAE7, 0xD4788559, 0xC36129FA];
        for k in 0..4 {
            if g.randrsl[255 - k] != un[k] {
                fail(&format!("isaac unseeded word {}", k));
            }
        }
        let mut g = ri::Isaac64 { mm: ri::randinit64(&[0; 256], 1), aa: 0, bb: 0, cc: 0, randrsl: [0; 256] };
        g.isaac64();
        let un64 = [0xF67DFBA498E4937Cu64, 0x84A5066A9204F380, 0xFEE34BD5F5514DBB];
        for k in 0..3 {
            if g.randrsl[255 - k] != un64[k] {
                fail(&format!("isaac64 unseeded word {}", k));
            }
        }
    }
    println!("SELFTEST-OK");
}

// ------------------------------------------------------------------ matrices
// Images of the basis states under the real one-step transition / jump().
// State bit index = word * wordbits + bit. One hex line per basis state.
use rand_core::RngCore;

macro_rules! lin_type {
    ($name:expr, $T:ty, $W:ty, $N:expr, $bits:expr, $native:ident, $what:expr, $arg:expr) => {
        if $arg == $name {
            let n = $N * $bits;
            println!("N {}", n);
            for j in 0..n {
                let mut s = [0 as $W; $N];
                s[j / $bits] = (1 as $W) << (j % $bits);
                let mut g = <$T>::verif_from_state(s);
                match $what {
                    "step" => {
                        let _ = g.$native();
                    }
                    "zero" => {}
                    other => jump_dispatch!(g, $T, other),
                }
                let st = g.verif_state();
                let mut v: Vec<String> = Vec::new();
                for w in (0..$N).rev() {
                    v.push(format!("{:0width$x}", st[w], width = $bits / 4));
                }
                println!("{}", v.join(""));
            }
            return;
        }
    };
}

trait Jumps {
    fn do_jump(&mut self, _long: bool) {
        println!("NOJUMP");
        std::process::exit(3);
    }
}
macro_rules! has_jump {
    ($($T:ty),*) => { $(impl Jumps for $T { fn do_jump(&mut self, long: bool) { if long { self.long_jump() } else { self.jump() } } })* };
}
macro_rules! no_jump {
    ($($T:ty),*) => { $(impl Jumps for $T {})* };
}
has_jump!(rand_xoshiro::Xoroshiro128Plus, rand_xoshiro::Xoroshiro128PlusPlus, rand_xoshiro::Xoroshiro128StarStar,
          rand_xoshiro::Xoshiro128Plus, rand_xoshiro::Xoshiro128PlusPlus, rand_xoshiro::Xoshiro128StarStar,
          rand_xoshiro::Xoshiro256Plus, rand_xoshiro::Xoshiro256PlusPlus, rand_xoshiro::Xoshiro256StarStar,
          rand_xoshiro::Xoshiro512Plus, rand_xoshiro::Xoshiro512PlusPlus, rand_xoshiro::Xoshiro512StarStar);
no_jump!(rand_xoshiro::Xoroshiro64Star, rand_xoshiro::Xoroshiro64StarStar, rand_xorshift::XorShiftRng);
macro_rules! jump_dispatch {
    ($g:ident, $T:ty, $what:expr) => {
        match $what {
            "jump" => Jumps::do_jump(&mut $g, false),
            "long_jump" => Jumps::do_jump(&mut $g, true),
            _ => {
                eprintln!("what?");
                std::process::exit(2)
            }
        }
    };
}

fn matrix(name: &str, what: &str) {
    lin_type!("xoroshiro64star", rand_xoshiro::Xoroshiro64Star, u32, 2, 32, next_u32, what, name);
    lin_type!("xoroshiro64starstar", rand_xoshiro::Xoroshiro64StarStar, u32, 2, 32, next_u32, what, name);
    lin_type!("xoroshiro128plus", rand_xoshiro::Xoroshiro128Plus, u64, 2, 64, next_u64, what, name);
    lin_type!("xoroshiro128plusplus", rand_xoshiro::Xoroshiro128PlusPlus, u64, 2, 64, next_u64, what, name);
    lin_type!("xoroshiro128starstar", rand_xoshiro::Xoroshiro128StarStar, u64, 2, 64, next_u64, what, name);
    lin_type!("xoshiro128plus", rand_xoshiro::Xoshiro128Plus, u32, 4, 32, next_u32, what, name);
    lin_type!("xoshiro128plusplus", rand_xoshiro::Xoshiro128PlusPlus, u32, 4, 32, next_u32, what, name);
    lin_type!("xoshiro128starstar", rand_xoshiro::Xoshiro128StarStar, u32, 4, 32, next_u32, what, name);
    lin_type!("xoshiro256plus", rand_xoshiro::Xoshiro256Plus, u64, 4, 64, next_u64, what, name);
    lin_type!("xoshiro256plusplus", rand_xoshiro::Xoshiro256PlusPlus, u64, 4, 64, next_u64, what, name);
    lin_type!("xoshiro256starstar", rand_xoshiro::Xoshiro256StarStar, u64, 4, 64, next_u64, what, name);
    lin_type!("xoshiro512plus", rand_xoshiro::Xoshiro512Plus, u64, 8, 64, next_u64, what, name);
    lin_type!("xoshiro512plusplus", rand_xoshiro::Xoshiro512PlusPlus, u64, 8, 64, next_u64, what, name);
    lin_type!("xoshiro512starstar", rand_xoshiro::Xoshiro512StarStar, u64, 8, 64, next_u64, what, name);
    lin_type!("xorshift", rand_xorshift::XorShiftRng, u32, 4, 32, next_u32, what, name);
    eprintln!("unknown type {}", name);
    std::process::exit(2);
}

/// stir(0) and stir(e_i), i = 0..64, from the real code (hook `verif_stir`).
fn stirbasis() {
    fn t() -> u64 {
        1
    }
    let mut r = rand_jitter::JitterRng::new_with_timer(t as fn() -> u64);
    let mut one = |x: u64| {
        r.verif_set_pool(x);
        r.verif_stir();
        r.verif_pool()
    };
    println!("{:016x}", one(0));
    for i in 0..64 {
        println!("{:016x}", one(1u64 << i));
    }
}

fn main() {
    let args: Vec<String> = std::env::args().collect();
    match args.get(1).map(|s| s.as_str()) {
        Some("selftest") => selftest(),
        Some("matrix") => matrix(&args[2], &args[3]),
        Some("stirbasis") => stirbasis(),
        _ => {
            eprintln!("usage: rngs_native selftest | ...");
            std::process::exit(2);
        }
    }
}
