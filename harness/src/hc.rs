//! Hc128Rng / Hc128Core: seeding routes (C09), clone and == (C10).
use crate::src_rng::{Src, SrcError, TrySrc};
use rand_core::block::BlockRngCore;
use rand_core::{RngCore, SeedableRng};
use rand_hc::{Hc128Core, Hc128Rng};

// Recording stub for <Hc128Core as SeedableRng>::from_seed: HC-128's
// initialisation is C02's subject and far too heavy to run here.
static mut FS_CALLS: usize = 0;
static mut FS_SEED: [u8; 32] = [0; 32];
static mut FS_MARK: u32 = 0;

#[allow(static_mut_refs)]
fn from_seed_stub(seed: [u8; 32]) -> Hc128Core {
    unsafe {
        FS_SEED = seed;
        FS_CALLS += 1;
        let m: u32 = kani::any();
        FS_MARK = m;
        let mut c = Hc128Core::verif_zeroed();
        c.verif_t_mut()[0] = m;
        c
    }
}

#[allow(static_mut_refs)]
fn is_stub_core_fresh(g: &Hc128Rng) -> bool {
    let inner = g.verif_inner();
    unsafe { FS_CALLS == 1 && inner.core.verif_t()[0] == FS_MARK && inner.index() == 16 }
}

fn u64_body(x: u64) {
    let g = Hc128Rng::seed_from_u64(x);
    let mut b = [0u8; 32];
    crate::ref_xoshiro::pcg32_expand(x, &mut b);
    let mut i = 0;
    while i < 32 {
        assert!(unsafe { FS_SEED[i] } == b[i]);
        i += 1;
    }
    assert!(is_stub_core_fresh(&g));
    kani::cover!(x > (1 << 63), "large x");
}

/// C09: seed_from_u64(x) = from_seed(PCG32 expansion of x), once, fresh buffer.
#[kani::proof]
#[kani::unwind(34)]
#[kani::stub(<rand_hc::Hc128Core as rand_core::SeedableRng>::from_seed, from_seed_stub)]
#[kani::stub(u64::wrapping_mul, crate::c01::uf::umul64)]
pub fn u64_route_uf() {
    u64_body(kani::any());
}
#[kani::proof]
#[kani::unwind(34)]
#[kani::stub(<rand_hc::Hc128Core as rand_core::SeedableRng>::from_seed, from_seed_stub)]
pub fn u64_route_real() {
    u64_body(kani::any());
}

/// C09: from_rng builds from exactly the 32 bytes one fill_bytes call delivers.
#[kani::proof]
#[kani::unwind(34)]
#[kani::stub(<rand_hc::Hc128Core as rand_core::SeedableRng>::from_seed, from_seed_stub)]
pub fn from_rng() {
    let mut src = Src::new();
    let g = Hc128Rng::from_rng(&mut src);
    assert!(src.calls == 1 && src.bytes == 32);
    let mut i = 0;
    while i < 32 {
        assert!(unsafe { FS_SEED[i] } == src.log[i]);
        i += 1;
    }
    assert!(is_stub_core_fresh(&g));
}

/// C09: try_from_rng = from_rng for a working source; the source's error otherwise.
#[kani::proof]
#[kani::unwind(34)]
#[kani::stub(<rand_hc::Hc128Core as rand_core::SeedableRng>::from_seed, from_seed_stub)]
#[allow(static_mut_refs)]
pub fn try_from_rng() {
    let fail_at: usize = kani::any();
    let err: u32 = kani::any();
    let mut src = TrySrc::new(fail_at, err);
    match Hc128Rng::try_from_rng(&mut src) {
        Ok(g) => {
            assert!(fail_at >= 1);
            assert!(src.inner.calls == 1 && src.inner.bytes == 32);
            let mut i = 0;
            while i < 32 {
                assert!(unsafe { FS_SEED[i] } == src.inner.log[i]);
                i += 1;
            }
            assert!(is_stub_core_fresh(&g));
        }
        Err(e) => {
            assert!(fail_at == 0 && e == SrcError(err));
            assert!(unsafe { FS_CALLS } == 0 && src.inner.bytes == 0);
        }
    }
    kani::cover!(fail_at == 0, "source fails");
    kani::cover!(fail_at > 0, "source works");
}

/// from_seed of the wrapper = core from_seed, fresh buffer (first output is the
/// first word of the first block).
#[kani::proof]
#[kani::unwind(34)]
#[kani::stub(<rand_hc::Hc128Core as rand_core::SeedableRng>::from_seed, from_seed_stub)]
pub fn from_seed_wrapper() {
    let seed: [u8; 32] = kani::any();
    let g = Hc128Rng::from_seed(seed);
    let mut i = 0;
    while i < 32 {
        assert!(unsafe { FS_SEED[i] } == seed[i]);
        i += 1;
    }
    assert!(is_stub_core_fresh(&g));
}

/// Hc128Core::from_seed decodes eight little-endian words and passes them to
/// init (stubbed: init is C02's expansion + warm-up).
static mut INIT_WORDS: [u32; 8] = [0; 8];
#[allow(static_mut_refs)]
fn init_stub(seed: [u32; 8]) -> Hc128Core {
    unsafe {
        INIT_WORDS = seed;
    }
    Hc128Core::verif_zeroed()
}
#[kani::proof]
#[kani::unwind(34)]
#[kani::stub(rand_hc::Hc128Core::init, init_stub)]
pub fn core_from_seed_decode() {
    let seed: [u8; 32] = kani::any();
    let _ = Hc128Core::from_seed(seed);
    let w = le_words!(u32, 8, seed);
    let mut i = 0;
    while i < 8 {
        assert!(unsafe { INIT_WORDS[i] } == w[i]);
        i += 1;
    }
}

// ------------------------------------------------------------------- C10
fn arbitrary_core() -> Hc128Core {
    let t0: [u32; 1024] = kani::any();
    let mut core = Hc128Core::verif_zeroed();
    *core.verif_t_mut() = t0;
    core.verif_set_counter(kani::any());
    core
}

/// Hc128Core ==: two cores that are zero except for one table word each at
/// position K (arbitrary values) and arbitrary counters: == holds exactly when
/// the two words and the counters are equal. Instances for K = 0, 1, 511, 512,
/// 1023 (a symbolic position, or two arbitrary 4 KiB tables, make the
/// 4096-byte memcmp miter too slow: > 1500 s); the thorough tier adds
/// `core_clone`, `rng_eq_index`, `rng_clone` over fully arbitrary tables.
pub fn core_eq_at<const K: usize>() {
    let mut a = Hc128Core::verif_zeroed();
    let mut b = Hc128Core::verif_zeroed();
    let (va, vb): (u32, u32) = (kani::any(), kani::any());
    a.verif_t_mut()[K] = va;
    b.verif_t_mut()[K] = vb;
    a.verif_set_counter(kani::any());
    b.verif_set_counter(kani::any());
    let same = va == vb && a.verif_counter() == b.verif_counter();
    assert!((a == b) == same);
    assert!((a != b) == !same);
    kani::cover!(va != vb, "differ in the word");
    kani::cover!(va == vb && !same, "differ in the counter only");
    kani::cover!(same, "equal");
}
macro_rules! core_eq_inst {
    ($name:ident, $k:expr) => {
        #[kani::proof]
        #[kani::unwind(4100)]
        pub fn $name() {
            core_eq_at::<$k>()
        }
    };
}
core_eq_inst!(core_eq_k0, 0);
core_eq_inst!(core_eq_k1, 1);
core_eq_inst!(core_eq_k511, 511);
core_eq_inst!(core_eq_k512, 512);
core_eq_inst!(core_eq_k1023, 1023);

/// Hc128Core clone: the clone has the same fields and is ==.
#[kani::proof]
#[kani::unwind(4100)]
pub fn core_clone() {
    let a = arbitrary_core();
    let c = a.clone();
    let k: usize = kani::any();
    kani::assume(k < 1024);
    assert!(c.verif_t()[k] == a.verif_t()[k] && c.verif_counter() == a.verif_counter());
    assert!(c == a);
}

/// Hc128Rng ==: (core, index); two generators at different read positions of
/// the same block are not equal; equal generators have equal core and index.
#[kani::proof]
#[kani::unwind(4100)]
#[kani::stub(<rand_hc::Hc128Core as rand_core::block::BlockRngCore>::generate, crate::c05_block::hc::gen_stub)]
pub fn rng_eq_index() {
    let core = arbitrary_core();
    let p1: usize = kani::any();
    let p2: usize = kani::any();
    kani::assume(p1 <= 16 && p2 <= 16);
    let mut a = Hc128Rng::verif_from_core(core.clone());
    let mut b = Hc128Rng::verif_from_core(core);
    if p1 < 16 {
        a.verif_inner_mut().generate_and_set(p1);
    }
    if p2 < 16 {
        b.verif_inner_mut().generate_and_set(p2);
    }
    // the stubbed generate does not touch the core: both hold the same core
    assert!((a == b) == (p1 == p2));
    kani::cover!(p1 != p2, "different positions");
    kani::cover!(p1 == p2, "same position");
}

/// Clone of Hc128Rng: same core, same index, same buffered words; one
/// operation on both returns the same value and leaves them equal.
#[kani::proof]
#[kani::unwind(4100)]
#[kani::stub(<rand_hc::Hc128Core as rand_core::block::BlockRngCore>::generate, crate::c05_block::hc::gen_stub)]
pub fn rng_clone() {
    let core = arbitrary_core();
    let p: usize = kani::any();
    kani::assume(p < 16);
    let mut a = Hc128Rng::verif_from_core(core);
    a.verif_inner_mut().generate_and_set(p);
    let mut c = a.clone();
    assert!(c == a);
    assert!(c.verif_inner().index() == p);
    let k: usize = kani::any();
    kani::assume(k < 1024);
    assert!(c.verif_inner().core.verif_t()[k] == a.verif_inner().core.verif_t()[k]);
    // buffered words are cloned too: reading within the block agrees
    if p < 15 {
        assert!(a.next_u32() == c.next_u32());
        assert!(c.verif_inner().index() == a.verif_inner().index());
    }
}

/// Quick-tier variant of `rng_eq_index`: the same near-zero core in two
/// wrappers at two arbitrary read positions (0..=16): == exactly when the
/// positions are equal.
#[kani::proof]
#[kani::unwind(4100)]
#[kani::stub(<rand_hc::Hc128Core as rand_core::block::BlockRngCore>::generate, crate::c05_block::hc::gen_stub)]
pub fn rng_eq_index_light() {
    let mut core = Hc128Core::verif_zeroed();
    core.verif_t_mut()[1000] = kani::any();
    core.verif_set_counter(kani::any());
    let p1: usize = kani::any();
    let p2: usize = kani::any();
    kani::assume(p1 <= 16 && p2 <= 16);
    let mut a = Hc128Rng::verif_from_core(core.clone());
    let mut b = Hc128Rng::verif_from_core(core);
    if p1 < 16 {
        a.verif_inner_mut().generate_and_set(p1);
    }
    if p2 < 16 {
        b.verif_inner_mut().generate_and_set(p2);
    }
    assert!((a == b) == (p1 == p2));
    kani::cover!(p1 == 15 && p2 == 16, "last word vs block used up");
    kani::cover!(p1 == p2, "same position");
}

/// Quick-tier clone check: a core that is zero except one arbitrary word, every
/// read position of the block (symbolic): the clone has the same index and
/// core fields, compares equal, and the next reads inside the block agree
/// (`generate` stubbed: a clone that refills or re-generates is seen).
#[kani::proof]
#[kani::unwind(4100)]
#[kani::stub(<rand_hc::Hc128Core as rand_core::block::BlockRngCore>::generate, crate::c05_block::hc::gen_stub)]
#[allow(static_mut_refs)]
pub fn rng_clone_light() {
    let mut core = Hc128Core::verif_zeroed();
    core.verif_t_mut()[7] = kani::any();
    core.verif_set_counter(kani::any());
    let p: usize = kani::any();
    kani::assume(p <= 16);
    let mut a = Hc128Rng::verif_from_core(core);
    if p < 16 {
        a.verif_inner_mut().generate_and_set(p);
    }
    let blocks = unsafe { crate::c05_block::hc::BLOCKS };
    let mut c = a.clone();
    // cloning does not generate
    assert!(unsafe { crate::c05_block::hc::BLOCKS } == blocks);
    assert!(c.verif_inner().index() == a.verif_inner().index());
    assert!(c.verif_inner().core.verif_t()[7] == a.verif_inner().core.verif_t()[7]);
    assert!(c.verif_inner().core.verif_counter() == a.verif_inner().core.verif_counter());
    if p < 14 {
        assert!(a.next_u32() == c.next_u32());
        assert!(a.next_u32() == c.next_u32());
        assert!(c.verif_inner().index() == a.verif_inner().index());
    }
    kani::cover!(p == 16, "fresh");
    kani::cover!(p == 5, "mid block");
}

/// The 16-word buffer is a function of the post-generate core: after a real
/// generate, results[k] = h(post.t[i12_k]) ^ post.t[i_k]; hence for reachable
/// configurations equal (core, index) implies equal unread words, although ==
/// does not compare the buffer.
#[kani::proof]
#[kani::unwind(18)]
pub fn buffer_is_function_of_core() {
    let blk: usize = kani::any();
    kani::assume(blk < 64);
    buffer_at(blk);
}

/// One block position (concrete in the `buf::b<blk>` harnesses, so that only
/// the h-table lookups have symbolic indices; the table contents are arbitrary).
fn buffer_at(blk: usize) {
    let t0: [u32; 1024] = kani::any();
    let mut core = Hc128Core::verif_zeroed();
    *core.verif_t_mut() = t0;
    let counter = 16 * blk;
    core.verif_set_counter(counter);
    let mut results = [0u32; 16];
    core.generate(&mut results);
    let t = core.verif_t();
    let k: usize = kani::any();
    kani::assume(k < 16);
    let j = (counter + k) % 512;
    let j12 = crate::ref_hc128::sub512(j, 12);
    if counter < 512 {
        let x = t[j12];
        let h = t[512 + (x & 0xff) as usize].wrapping_add(t[512 + 256 + ((x >> 16) & 0xff) as usize]);
        assert!(results[k] == h ^ t[j]);
    } else {
        let x = t[512 + j12];
        let h = t[(x & 0xff) as usize].wrapping_add(t[256 + ((x >> 16) & 0xff) as usize]);
        assert!(results[k] == h ^ t[512 + j]);
    }
    kani::cover!(k == 15, "last word of the block");
}

/// `buffer_is_function_of_core` per concrete block 0..63 (all 64 positions of
/// the 1024-step cycle a block can start at).
pub mod buf {
    macro_rules! at {
        ($($n:ident = $b:expr),*) => {$(
            #[kani::proof]
            #[kani::unwind(18)]
            pub fn $n() {
                super::buffer_at($b);
            }
        )*};
    }
    at!(b0 = 0, b1 = 1, b2 = 2, b3 = 3, b4 = 4, b5 = 5, b6 = 6, b7 = 7, b8 = 8, b9 = 9, b10 = 10, b11 = 11, b12 = 12, b13 = 13, b14 = 14, b15 = 15,
        b16 = 16, b17 = 17, b18 = 18, b19 = 19, b20 = 20, b21 = 21, b22 = 22, b23 = 23, b24 = 24, b25 = 25, b26 = 26, b27 = 27, b28 = 28, b29 = 29, b30 = 30, b31 = 31,
        b32 = 32, b33 = 33, b34 = 34, b35 = 35, b36 = 36, b37 = 37, b38 = 38, b39 = 39, b40 = 40, b41 = 41, b42 = 42, b43 = 43, b44 = 44, b45 = 45, b46 = 46, b47 = 47,
        b48 = 48, b49 = 49, b50 = 50, b51 = 51, b52 = 52, b53 = 53, b54 = 54, b55 = 55, b56 = 56, b57 = 57, b58 = 58, b59 = 59, b60 = 60, b61 = 61, b62 = 62, b63 = 63);
}
