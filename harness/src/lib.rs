//! Kani proof harnesses for the properties C01..C19 of rust-random/rngs.
//! The crates under test are path dependencies on /repo; the hooks they offer
//! are compiled in with RUSTFLAGS="--cfg rngs_verif".
#![recursion_limit = "512"]
#![allow(clippy::all)]
#![allow(dead_code, unused_macros, unused_imports)]

#[macro_use]
mod gen_table;
pub mod ref_xoshiro;
pub mod ref_hc128;
pub mod ref_jitter;
pub mod ref_isaac;

#[cfg(kani)]
pub mod c01;
#[cfg(kani)]
pub mod c04;
#[cfg(kani)]
pub mod c05;
#[cfg(kani)]
pub mod c06;
#[cfg(kani)]
pub mod c07;
#[cfg(kani)]
pub mod c05_block;
#[cfg(kani)]
pub mod c08;
#[cfg(kani)]
pub mod c10;
#[cfg(kani)]
pub mod src_rng;
#[cfg(kani)]
pub mod c02;
#[cfg(kani)]
pub mod c03;
#[cfg(kani)]
pub mod c17;
#[cfg(kani)]
pub mod c19;
#[cfg(kani)]
pub mod hc;
#[cfg(kani)]
pub mod jit;
#[cfg(all(kani, feature = "serde"))]
pub mod c11;
#[cfg(all(kani, feature = "serde"))]
pub mod tape;
