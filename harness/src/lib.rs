//! Kani proof harnesses for the properties C01..C19 of rust-random/rngs.
//! The crates under test are path dependencies on /repo; the hooks they offer
//! are compiled in with RUSTFLAGS="--cfg rngs_verif".
#![allow(clippy::all)]
#![allow(dead_code, unused_macros, unused_imports)]

#[macro_use]
mod gen_table;
pub mod ref_xoshiro;

#[cfg(kani)]
pub mod c01;
#[cfg(kani)]
pub mod c04;
