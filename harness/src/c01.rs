//! C01 - xoshiro/xoroshiro/SplitMix64 output equals the Blackman-Vigna reference.
use rand_core::{RngCore, SeedableRng};

macro_rules! c01_type {
    ($m:ident, $T:ty, $W:ident, $N:expr, $SB:expr, $native:ident, $refn:path, $seedk:ident, $half:ident, $kind:ident) => {
        pub mod $m {
            use super::*;

            /// One inductive step from every state: reference output word and
            /// reference successor state.
            #[kani::proof]
            pub fn step() {
                let s: [$W; $N] = kani::any();
                let mut g = <$T>::verif_from_state(s);
                let out = g.$native();
                let (rs, ro) = $refn(s);
                assert!(out == ro);
                let st = g.verif_state();
                let mut i = 0;
                while i < $N {
                    assert!(st[i] == rs[i]);
                    i += 1;
                }
                kani::cover!(out != 0, "non-zero output reachable");
            }

            /// from_seed on every non-zero seed: state words are the
            /// little-endian words of the seed.
            #[kani::proof]
            #[kani::unwind(66)]
            pub fn seed() {
                let b: [u8; $SB] = kani::any();
                let mut nz = false;
                let mut i = 0;
                while i < $SB {
                    nz |= b[i] != 0;
                    i += 1;
                }
                kani::assume(nz);
                let g = <$T>::from_seed(mk_seed!($seedk, b));
                let st = g.verif_state();
                let w = le_words!($W, $N, b);
                let mut i = 0;
                while i < $N {
                    assert!(st[i] == w[i]);
                    i += 1;
                }
                kani::cover!(b[$SB - 1] == 0xff, "top byte");
            }
        }
    };
}
xoshiro_table!(c01_type);

/// `wrapping_mul` as an uninterpreted function: a recording stub that returns
/// an arbitrary value, constrained to be functional on the argument pairs seen
/// so far (Ackermann expansion). It replaces the multiplication in the
/// implementation *and* in the reference model, so equality under the stub
/// implies equality under the real multiplication.
pub mod uf {
    static mut MUL_N: usize = 0;
    static mut MUL_A: [u64; 160] = [0; 160];
    static mut MUL_B: [u64; 160] = [0; 160];
    static mut MUL_R: [u64; 160] = [0; 160];

    #[allow(static_mut_refs)]
    pub fn umul64(a: u64, b: u64) -> u64 {
        unsafe {
            let r: u64 = kani::any();
            let mut i = 0;
            while i < MUL_N {
                if MUL_A[i] == a && MUL_B[i] == b {
                    kani::assume(r == MUL_R[i]);
                }
                i += 1;
            }
            assert!(MUL_N < 160);
            MUL_A[MUL_N] = a;
            MUL_B[MUL_N] = b;
            MUL_R[MUL_N] = r;
            MUL_N += 1;
            r
        }
    }

    pub fn umul32(a: u32, b: u32) -> u32 {
        umul64(a as u64, b as u64) as u32
    }
}

macro_rules! c01_uf32 {
    ($m:ident, $T:ty, $refn:path) => {
        pub mod $m {
            use rand_core::RngCore;
            /// As `step`, with the 32-bit multiplications by 0x9E3779BB (and 5)
            /// compared as an uninterpreted function.
            #[kani::proof]
            #[kani::unwind(9)]
            #[kani::stub(u32::wrapping_mul, super::uf::umul32)]
            pub fn step_uf() {
                let s: [u32; 2] = kani::any();
                let mut g = <$T>::verif_from_state(s);
                let out = g.next_u32();
                let (rs, ro) = $refn(s);
                assert!(out == ro);
                let st = g.verif_state();
                assert!(st[0] == rs[0] && st[1] == rs[1]);
                kani::cover!(s[0] > (1 << 31), "high bits");
            }
        }
    };
}
c01_uf32!(xoroshiro64star_uf, rand_xoshiro::Xoroshiro64Star, crate::ref_xoshiro::xoroshiro64star);
c01_uf32!(xoroshiro64starstar_uf, rand_xoshiro::Xoroshiro64StarStar, crate::ref_xoshiro::xoroshiro64starstar);

pub mod splitmix64 {
    use rand_core::{RngCore, SeedableRng};
    use rand_xoshiro::SplitMix64;

    macro_rules! sm_step {
        ($name:ident, $call:ident, $refn:path $(, $stub:meta)?) => {
            #[kani::proof]
            #[kani::unwind(9)]
            $(#[$stub])?
            pub fn $name() {
                let x: u64 = kani::any();
                let mut g = SplitMix64::verif_from_state([x]);
                let out = g.$call();
                let (rx, ro) = $refn(x);
                assert!(out == ro);
                assert!(g.verif_state()[0] == rx);
                kani::cover!(x > (1 << 63), "high counter");
            }
        };
    }
    // next_u64 = splitmix64.c from every counter value; next_u32 = dsiutils
    // Mix4 finalizer (upper 32 bits) of the same counter step. The `_uf`
    // harnesses compare the 64x64 constant multiplications as an uninterpreted
    // function (DESIGN section 4); the `_real` twins use the real multiplier
    // and serve to turn a failure into a natively replayable counterexample.
    sm_step!(step64_uf, next_u64, crate::ref_xoshiro::splitmix64, kani::stub(u64::wrapping_mul, super::uf::umul64));
    sm_step!(step32_uf, next_u32, crate::ref_xoshiro::splitmix64_mix4, kani::stub(u64::wrapping_mul, super::uf::umul64));
    sm_step!(step64_real, next_u64, crate::ref_xoshiro::splitmix64);
    sm_step!(step32_real, next_u32, crate::ref_xoshiro::splitmix64_mix4);

    /// from_seed: the counter is the little-endian u64 of the 8 seed bytes
    /// (no zero remapping for SplitMix64).
    #[kani::proof]
    #[kani::unwind(10)]
    pub fn seed() {
        let b: [u8; 8] = kani::any();
        let g = SplitMix64::from_seed(b);
        assert!(g.verif_state()[0] == u64::from_le_bytes(b));
        kani::cover!(b == [0u8; 8], "zero seed allowed");
    }
}
