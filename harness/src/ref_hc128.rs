//! Reference model of HC-128, transcribed from Hongjun Wu, "The Stream Cipher
//! HC-128" (eSTREAM portfolio), sections 2.1-2.3, in the paper's shape: two
//! tables P and Q of 512 words, functions f1 f2 g1 g2 h1 h2, index arithmetic
//! written with the paper's "minus modulo 512".

#[inline(always)]
fn rotr(x: u32, n: u32) -> u32 {
    (x >> n) | (x << (32 - n))
}
#[inline(always)]
fn rotl(x: u32, n: u32) -> u32 {
    (x << n) | (x >> (32 - n))
}
pub fn f1(x: u32) -> u32 {
    rotr(x, 7) ^ rotr(x, 18) ^ (x >> 3)
}
pub fn f2(x: u32) -> u32 {
    rotr(x, 17) ^ rotr(x, 19) ^ (x >> 10)
}
pub fn g1(x: u32, y: u32, z: u32) -> u32 {
    (rotr(x, 10) ^ rotr(z, 23)).wrapping_add(rotr(y, 8))
}
pub fn g2(x: u32, y: u32, z: u32) -> u32 {
    (rotl(x, 10) ^ rotl(z, 23)).wrapping_add(rotl(y, 8))
}
/// `a minus b` modulo 512.
#[inline(always)]
pub fn sub512(a: usize, b: usize) -> usize {
    (a + 512 - (b % 512)) % 512
}

/// One keystream step (section 2.3) on the state (P, Q) at step number `i`
/// (only `i mod 1024` matters). Returns the keystream word s_i.
pub fn step(p: &mut [u32; 512], q: &mut [u32; 512], i: usize) -> u32 {
    let j = i % 512;
    if i % 1024 < 512 {
        p[j] = p[j].wrapping_add(g1(p[sub512(j, 3)], p[sub512(j, 10)], p[sub512(j, 511)]));
        let x = p[sub512(j, 12)];
        let h1 = q[(x & 0xff) as usize].wrapping_add(q[256 + ((x >> 16) & 0xff) as usize]);
        h1 ^ p[j]
    } else {
        q[j] = q[j].wrapping_add(g2(q[sub512(j, 3)], q[sub512(j, 10)], q[sub512(j, 511)]));
        let x = q[sub512(j, 12)];
        let h2 = p[(x & 0xff) as usize].wrapping_add(p[256 + ((x >> 16) & 0xff) as usize]);
        h2 ^ q[j]
    }
}

/// Key and IV expansion (section 2.2, steps 1-2): W[0..1280].
pub fn expand(key: [u32; 4], iv: [u32; 4], w: &mut [u32; 1280]) {
    let mut i = 0;
    while i < 8 {
        w[i] = key[i % 4];
        w[i + 8] = iv[i % 4];
        i += 1;
    }
    let mut i = 16;
    while i < 1280 {
        w[i] = f2(w[i - 2])
            .wrapping_add(w[i - 7])
            .wrapping_add(f1(w[i - 15]))
            .wrapping_add(w[i - 16])
            .wrapping_add(i as u32);
        i += 1;
    }
}

/// Full initialisation (section 2.2): expansion, P/Q load, 1024 steps whose
/// outputs replace the table elements.
pub fn init(key: [u32; 4], iv: [u32; 4], p: &mut [u32; 512], q: &mut [u32; 512]) {
    let mut w = [0u32; 1280];
    expand(key, iv, &mut w);
    for i in 0..512 {
        p[i] = w[i + 256];
        q[i] = w[i + 768];
    }
    for i in 0..512 {
        let s = step(p, q, i);
        p[i] = s;
    }
    for i in 0..512 {
        let s = step(p, q, 512 + i);
        q[i] = s;
    }
}
