//! C05 - next_u32, next_u64 and fill_bytes are projections of one forward-only stream.
use rand_core::{RngCore, SeedableRng};

/// Twin-side projection rules (see gen_table.rs).
macro_rules! c05_other_width {
    // 32-bit-word generator: next_u64 = (second << 32) | first
    (pair, $T:ty, $g:ident, $t:ident) => {{
        let v = $g.next_u64();
        let first = $t.next_u32() as u64;
        let second = $t.next_u32() as u64;
        assert!(v == (second << 32) | first);
    }};
    (upper, $T:ty, $g:ident, $t:ident) => {{
        let v = $g.next_u32();
        let w = $t.next_u64();
        assert!(v == (w >> 32) as u32);
    }};
    (lower, $T:ty, $g:ident, $t:ident) => {{
        let v = $g.next_u32();
        let w = $t.next_u64();
        assert!(v == w as u32);
    }};
}

/// The next tail word of the twin for a 1..=4 byte tail, as a u32.
macro_rules! c05_tail32 {
    (pair, $t:ident) => {
        $t.next_u32()
    };
    (upper, $t:ident) => {
        ($t.next_u64() >> 32) as u32
    };
    (lower, $t:ident) => {
        $t.next_u64() as u32
    };
}
/// The next 8 bytes of the twin, from native-width calls only.
macro_rules! c05_next8 {
    (pair, $t:ident) => {{
        let first = $t.next_u32() as u64;
        let second = $t.next_u32() as u64;
        (second << 32) | first
    }};
    (upper, $t:ident) => {
        $t.next_u64()
    };
    (lower, $t:ident) => {
        $t.next_u64()
    };
}

macro_rules! c05_type {
    ($m:ident, $T:ty, $W:ident, $N:expr, $SB:expr, $native:ident, $refn:path, $seedk:ident, $half:ident, $kind:ident) => {
        pub mod $m {
            use super::*;
            const MAXN: usize = 24;

            /// The non-native-width call is the documented projection of the
            /// next native word(s) and leaves the generator where the twin is.
            #[kani::proof]
            #[kani::unwind(34)]
            #[kani::stub(u64::wrapping_mul, crate::c01::uf::umul64)]
            #[kani::stub(u32::wrapping_mul, crate::c01::uf::umul32)]
            pub fn width() {
                let s: [$W; $N] = kani::any();
                let mut g = <$T>::verif_from_state(s);
                let mut t = <$T>::verif_from_state(s);
                c05_other_width!($half, $T, g, t);
                let (sg, st) = (g.verif_state(), t.verif_state());
                let mut i = 0;
                while i < $N {
                    assert!(sg[i] == st[i]);
                    i += 1;
                }
            }

            /// fill_bytes(n) for every n <= MAXN (symbolic n): LE bytes of n/8
            /// whole 8-byte reads, then one 8-byte read (tail 5..7) or one
            /// 32-bit read (tail 1..4), truncated; generator ends where the
            /// twin (native-width calls only) ends.
            #[kani::proof]
            #[kani::unwind(34)]
            #[kani::stub(u64::wrapping_mul, crate::c01::uf::umul64)]
            #[kani::stub(u32::wrapping_mul, crate::c01::uf::umul32)]
            pub fn fill() {
                let s: [$W; $N] = kani::any();
                let n: usize = kani::any();
                kani::assume(n <= MAXN);
                let mut g = <$T>::verif_from_state(s);
                let mut t = <$T>::verif_from_state(s);
                let mut buf = [0u8; MAXN];
                g.fill_bytes(&mut buf[..n]);
                let mut exp = [0u8; MAXN + 8];
                let mut pos = 0;
                while n - pos >= 8 {
                    let w = c05_next8!($half, t).to_le_bytes();
                    let mut j = 0;
                    while j < 8 {
                        exp[pos + j] = w[j];
                        j += 1;
                    }
                    pos += 8;
                }
                let tail = n - pos;
                if tail > 4 {
                    let w = c05_next8!($half, t).to_le_bytes();
                    let mut j = 0;
                    while j < 8 {
                        exp[pos + j] = w[j];
                        j += 1;
                    }
                } else if tail > 0 {
                    let w = c05_tail32!($half, t).to_le_bytes();
                    let mut j = 0;
                    while j < 4 {
                        exp[pos + j] = w[j];
                        j += 1;
                    }
                }
                let k: usize = kani::any();
                if k < n {
                    assert!(buf[k] == exp[k]);
                }
                let (sg, st) = (g.verif_state(), t.verif_state());
                let mut i = 0;
                while i < $N {
                    assert!(sg[i] == st[i]);
                    i += 1;
                }
                kani::cover!(n == 0, "empty");
                kani::cover!(n == MAXN, "three whole words");
                kani::cover!(tail > 4, "tail 5..7");
                kani::cover!(tail > 0 && tail <= 4, "tail 1..4");
            }
        }
    };
}
xoshiro_table!(c05_type);
c05_type!(xorshift, rand_xorshift::XorShiftRng, u32, 4, 16, next_u32, crate::ref_xoshiro::xor128, arr, pair, lin);

/// SplitMix64: next_u32 is its own 32-bit finalizer (dsiutils Mix4, proved in
/// C01) of the same counter step as next_u64; fill_bytes as the others with
/// the 1..4-byte tail taken from next_u32.
pub mod splitmix64 {
    use super::*;
    use rand_xoshiro::SplitMix64;
    const MAXN: usize = 24;

    #[kani::proof]
    pub fn width() {
        let x: u64 = kani::any();
        let mut g = SplitMix64::verif_from_state([x]);
        let mut t = SplitMix64::verif_from_state([x]);
        let _ = g.next_u32();
        let _ = t.next_u64();
        assert!(g.verif_state()[0] == t.verif_state()[0]);
        assert!(g.verif_state()[0] == x.wrapping_add(crate::ref_xoshiro::SPLITMIX_GAMMA));
    }

    #[kani::proof]
    #[kani::unwind(34)]
    #[kani::stub(u64::wrapping_mul, crate::c01::uf::umul64)]
    pub fn fill() {
        let x: u64 = kani::any();
        let n: usize = kani::any();
        kani::assume(n <= MAXN);
        let mut g = SplitMix64::verif_from_state([x]);
        let mut t = SplitMix64::verif_from_state([x]);
        let mut buf = [0u8; MAXN];
        g.fill_bytes(&mut buf[..n]);
        let mut exp = [0u8; MAXN + 8];
        let mut pos = 0;
        while n - pos >= 8 {
            let w = t.next_u64().to_le_bytes();
            let mut j = 0;
            while j < 8 {
                exp[pos + j] = w[j];
                j += 1;
            }
            pos += 8;
        }
        let tail = n - pos;
        if tail > 4 {
            let w = t.next_u64().to_le_bytes();
            let mut j = 0;
            while j < 8 {
                exp[pos + j] = w[j];
                j += 1;
            }
        } else if tail > 0 {
            let w = t.next_u32().to_le_bytes();
            let mut j = 0;
            while j < 4 {
                exp[pos + j] = w[j];
                j += 1;
            }
        }
        let k: usize = kani::any();
        if k < n {
            assert!(buf[k] == exp[k]);
        }
        assert!(g.verif_state()[0] == t.verif_state()[0]);
        kani::cover!(n == 0, "empty");
        kani::cover!(n == MAXN, "three whole words");
        kani::cover!(tail > 4, "tail 5..7");
        kani::cover!(tail > 0 && tail <= 4, "tail 1..4");
    }
}
