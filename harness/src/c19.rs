//! C19 - generators share no hidden state. Kani does not model threads; the
//! solver decides the sequential core: for two arbitrary instances, the values
//! an instance returns are the same whether or not operations on another
//! instance (incl. its construction through every seeding route) are
//! interleaved, and vice versa. Statics or thread-locals, if any were
//! introduced, are ordinary memory to CBMC. Send/Sync are compile-time
//! obligations of this crate.
use rand_core::{RngCore, SeedableRng};

fn is_send_sync<T: Send + Sync>() {}

/// Compile-time: every generator type is Send + Sync (JitterRng for a
/// Send + Sync timer).
#[kani::proof]
pub fn send_sync() {
    is_send_sync::<rand_xoshiro::SplitMix64>();
    is_send_sync::<rand_xoshiro::Xoroshiro64Star>();
    is_send_sync::<rand_xoshiro::Xoroshiro64StarStar>();
    is_send_sync::<rand_xoshiro::Xoroshiro128Plus>();
    is_send_sync::<rand_xoshiro::Xoroshiro128PlusPlus>();
    is_send_sync::<rand_xoshiro::Xoroshiro128StarStar>();
    is_send_sync::<rand_xoshiro::Xoshiro128Plus>();
    is_send_sync::<rand_xoshiro::Xoshiro128PlusPlus>();
    is_send_sync::<rand_xoshiro::Xoshiro128StarStar>();
    is_send_sync::<rand_xoshiro::Xoshiro256Plus>();
    is_send_sync::<rand_xoshiro::Xoshiro256PlusPlus>();
    is_send_sync::<rand_xoshiro::Xoshiro256StarStar>();
    is_send_sync::<rand_xoshiro::Xoshiro512Plus>();
    is_send_sync::<rand_xoshiro::Xoshiro512PlusPlus>();
    is_send_sync::<rand_xoshiro::Xoshiro512StarStar>();
    is_send_sync::<rand_xorshift::XorShiftRng>();
    is_send_sync::<rand_hc::Hc128Rng>();
    is_send_sync::<rand_hc::Hc128Core>();
    is_send_sync::<rand_isaac::IsaacRng>();
    is_send_sync::<rand_isaac::Isaac64Rng>();
    is_send_sync::<rand_jitter::JitterRng<fn() -> u64>>();
    let x: u8 = kani::any();
    kani::cover!(x == 1, "reachable");
}

/// A scripted sequence of operations on one instance; returns the outputs.
macro_rules! run_ops {
    ($g:expr) => {{
        let o1 = $g.next_u64();
        let o2 = $g.next_u32();
        let mut buf = [0u8; 5];
        $g.fill_bytes(&mut buf);
        (o1, o2, buf)
    }};
}

macro_rules! c19_type {
    ($m:ident, $T:ty, $W:ident, $N:expr, $SB:expr, $native:ident, $refn:path, $seedk:ident, $half:ident, $kind:ident) => {
        pub mod $m {
            use super::*;
            type Other = rand_xorshift::XorShiftRng;

            /// Instance `a` alone vs `a` with a second instance of the same
            /// type and one of another crate constructed (from_seed with an
            /// arbitrary, possibly zero, seed) and advanced in between; and the
            /// second instance's results do not depend on `a` having run.
            #[kani::proof]
            #[kani::unwind(170)]
            #[kani::stub(u64::wrapping_mul, crate::c01::uf::umul64)]
            #[kani::stub(u32::wrapping_mul, crate::c01::uf::umul32)]
            pub fn nonint() {
                let s: [$W; $N] = kani::any();
                let sb: [$W; $N] = kani::any();
                let so: [u32; 4] = kani::any();
                // run 1: a alone; b alone
                let mut a1 = <$T>::verif_from_state(s);
                let r1 = run_ops!(a1);
                let r1b = run_ops!(a1);
                let mut b1 = <$T>::verif_from_state(sb);
                let q1 = run_ops!(b1);
                // run 2: a, then b and an instance of another crate, then a again
                let mut a2 = <$T>::verif_from_state(s);
                let r2 = run_ops!(a2);
                let mut b2 = <$T>::verif_from_state(sb);
                let q2 = run_ops!(b2);
                let mut o = Other::verif_from_state(so);
                let _ = o.next_u64();
                let c = b2.clone();
                let r2b = run_ops!(a2);
                assert!(r1.0 == r2.0 && r1.1 == r2.1 && r1.2 == r2.2);
                assert!(r1b.0 == r2b.0 && r1b.1 == r2b.1 && r1b.2 == r2b.2);
                assert!(q1.0 == q2.0 && q1.1 == q2.1 && q1.2 == q2.2);
                let (x1, x2) = (a1.verif_state(), a2.verif_state());
                let mut i = 0;
                while i < $N {
                    assert!(x1[i] == x2[i]);
                    i += 1;
                }
                assert!(c == b2);
                kani::cover!(r1.0 != q1.0, "distinct streams");
            }
        }
    };
}
xoshiro_table!(c19_type);
c19_type!(splitmix64, rand_xoshiro::SplitMix64, u64, 1, 8, next_u64, crate::ref_xoshiro::splitmix64, arr, mix4, ctr);
c19_type!(xorshift, rand_xorshift::XorShiftRng, u32, 4, 16, next_u32, crate::ref_xoshiro::xor128, arr, pair, lin);

/// Constructors of one instance do not disturb another: seeding routes of a
/// second instance (from_seed with an arbitrary seed incl. zero, seed_from_u64)
/// interleaved between two operations of the first.
pub mod seeding {
    use super::*;
    use rand_xoshiro::Xoshiro256PlusPlus as X;
    #[kani::proof]
    #[kani::unwind(70)]
    pub fn interleaved_constructors() {
        let s: [u64; 4] = kani::any();
        let mut a1 = X::verif_from_state(s);
        let r1 = (a1.next_u64(), a1.next_u64());
        let mut a2 = X::verif_from_state(s);
        let o1 = a2.next_u64();
        let seed: [u8; 32] = kani::any();
        let b = X::from_seed(seed);
        let x: u64 = kani::any();
        let c = rand_xoshiro::Xoroshiro128Plus::seed_from_u64(x);
        let d = rand_xorshift::XorShiftRng::from_seed(kani::any());
        let o2 = a2.next_u64();
        assert!(r1.0 == o1 && r1.1 == o2);
        // and the constructed instances are what they are without `a`:
        let b_alone = X::from_seed(seed);
        assert!(b == b_alone);
        let _ = (c, d);
        kani::cover!(seed == [0u8; 32], "zero seed (remapped) in between");
    }
}
