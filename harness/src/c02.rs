//! C02 - Hc128Rng keystream equals HC-128 (Wu) for every key and IV.
use rand_core::{RngCore, SeedableRng};
use rand_hc::{Hc128Core, Hc128Rng};

// Counting stub for `sixteen_steps` (the warm-up blocks of `init`): checks that
// block number n starts at counter 16 n and advances the counter as the real
// function does (its own behaviour is `sixteen_seq` below).
static mut SIXTEEN_CALLS: usize = 0;
static mut SIXTEEN_OK: bool = true;
#[allow(static_mut_refs)]
fn noop_sixteen(c: &mut Hc128Core) {
    unsafe {
        SIXTEEN_OK &= c.verif_counter() == 16 * SIXTEEN_CALLS;
        SIXTEEN_CALLS += 1;
    }
    let n = c.verif_counter();
    c.verif_set_counter(n + 16);
}

// ---------------------------------------------------------------- expansion
// "UF-cut": `u32::wrapping_add` is replaced by a stub that returns a FRESH
// arbitrary value for every call, so every table word the expansion stores is
// a fresh variable and the solver sees no deep arithmetic chain.
//
// (A) `expand_operands`: the stub checks on the fly, for every seed and for
// EVERY possible result of every earlier addition (in particular the real
// sums), that the operands of the 4 additions of step i are exactly those of
// Wu's recurrence
//      W[i] = f2(W[i-2]) + W[i-7] + f1(W[i-15]) + W[i-16] + i
// applied to the previously produced words (kept in a rolling window of 16 -
// large static logs make CBMC's SSA conversion explode, see DESIGN section 10).
// Since the real wrapping_add(a, b) is a + b mod 2^32, the real run computes
// Wu's W (induction over i, outside the solver).
// (B) `expand_placement`: the same run with the stub returning the step
// number i as the result of step i: the final table must read
// t[k] = k + 256, i.e. the word stored at t[k] is the result of step k + 256
// (P[k] = W[k+256], Q[k] = W[k+768]). This tracks the dataflow of results into
// the final table; it relies on the expansion's table addressing being
// data-independent (all indices are loop counters).
// Both also check that init runs exactly 64 warm-up blocks from counter 0.
const NADD: usize = 4 * 1264;
static mut ADD_N: usize = 0;
static mut ADD_OK: bool = true;
static mut ADD_PREV: u64 = 0;
// the rolling window as 16 scalar statics (static ARRAYS that receive fresh
// symbolic values inside the stub make CBMC's SSA conversion explode, section 10)
static mut W_0: u64 = 0;
static mut W_1: u64 = 0;
static mut W_2: u64 = 0;
static mut W_3: u64 = 0;
static mut W_4: u64 = 0;
static mut W_5: u64 = 0;
static mut W_6: u64 = 0;
static mut W_7: u64 = 0;
static mut W_8: u64 = 0;
static mut W_9: u64 = 0;
static mut W_10: u64 = 0;
static mut W_11: u64 = 0;
static mut W_12: u64 = 0;
static mut W_13: u64 = 0;
static mut W_14: u64 = 0;
static mut W_15: u64 = 0;

#[allow(static_mut_refs)]
fn w16(k: usize) -> u32 {
    unsafe {
        (match k % 16 {
            0 => W_0, 1 => W_1, 2 => W_2, 3 => W_3, 4 => W_4, 5 => W_5, 6 => W_6, 7 => W_7,
            8 => W_8, 9 => W_9, 10 => W_10, 11 => W_11, 12 => W_12, 13 => W_13, 14 => W_14, _ => W_15,
        }) as u32
    }
}
#[allow(static_mut_refs)]
fn w16_set(k: usize, v: u32) {
    let v = v as u64;
    unsafe {
        match k % 16 {
            0 => W_0 = v, 1 => W_1 = v, 2 => W_2 = v, 3 => W_3 = v, 4 => W_4 = v, 5 => W_5 = v, 6 => W_6 = v, 7 => W_7 = v,
            8 => W_8 = v, 9 => W_9 = v, 10 => W_10 = v, 11 => W_11 = v, 12 => W_12 = v, 13 => W_13 = v, 14 => W_14 = v, _ => W_15 = v,
        }
    }
}
// only the steps LO <= i < HI are checked in one harness (bands keep the SAT
// instance small; the rolling window is maintained through all steps)
static mut ADD_LO: usize = 0;
static mut ADD_HI: usize = 1280;

fn pair(a: u32, b: u32, e1: u32, e2: u32) -> bool {
    (a == e1 && b == e2) || (a == e2 && b == e1)
}

#[allow(static_mut_refs)]
fn add_cut(a: u32, b: u32) -> u32 {
    unsafe {
        let r: u32 = kani::any();
        if ADD_N < NADD {
            let i = 16 + ADD_N / 4;
            let chk = i >= ADD_LO && i < ADD_HI;
            match ADD_N % 4 {
                0 => ADD_OK &= !chk || pair(a, b, crate::ref_hc128::f2(w16(i - 2)), w16(i - 7)),
                1 => ADD_OK &= !chk || pair(a, b, ADD_PREV as u32, crate::ref_hc128::f1(w16(i - 15))),
                2 => ADD_OK &= !chk || pair(a, b, ADD_PREV as u32, w16(i - 16)),
                _ => {
                    ADD_OK &= !chk || pair(a, b, ADD_PREV as u32, i as u32);
                    w16_set(i, r);
                }
            }
            ADD_PREV = r as u64;
        }
        ADD_N += 1;
        r
    }
}

macro_rules! expand_band {
    ($name:ident, $lo:expr, $hi:expr) => {
        /// (A) operands of every addition of the key/IV expansion in the band
        /// of steps [$lo, $hi), for every seed.
        #[kani::proof]
        #[kani::unwind(1300)]
        #[kani::stub(rand_hc::Hc128Core::sixteen_steps, noop_sixteen)]
        #[kani::stub(u32::wrapping_add, add_cut)]
        pub fn $name() {
            expand_operands_body($lo, $hi)
        }
    };
}
expand_band!(expand_operands_0, 16, 144);
expand_band!(expand_operands_1, 144, 272);
expand_band!(expand_operands_2, 272, 400);
expand_band!(expand_operands_3, 400, 528);
expand_band!(expand_operands_4, 528, 656);
expand_band!(expand_operands_5, 656, 784);
expand_band!(expand_operands_6, 784, 912);
expand_band!(expand_operands_7, 912, 1040);
expand_band!(expand_operands_8, 1040, 1168);
expand_band!(expand_operands_9, 1168, 1280);
expand_band!(expand_operands_all, 16, 1280);

#[allow(static_mut_refs)]
fn expand_operands_body(lo: usize, hi: usize) {
    unsafe {
        ADD_LO = lo;
        ADD_HI = hi;
    }
    let seed: [u32; 8] = kani::any();
    // W[0..16] = K K IV IV
    let mut i = 0;
    while i < 4 {
        w16_set(i, seed[i]);
        w16_set(i + 4, seed[i]);
        w16_set(i + 8, seed[4 + i]);
        w16_set(i + 12, seed[4 + i]);
        i += 1;
    }
    let core = Hc128Core::verif_init(seed);
    assert!(unsafe { ADD_N } == NADD);
    assert!(unsafe { ADD_OK });
    assert!(core.verif_counter() == 0);
    // init runs exactly 64 warm-up blocks, block n from counter 16 n
    assert!(unsafe { SIXTEEN_CALLS } == 64 && unsafe { SIXTEEN_OK });
    // the last 16 produced words are the last 16 table words
    let t = core.verif_t();
    let mut k = 1008;
    while k < 1024 {
        assert!(t[k] == w16(k + 256));
        k += 1;
    }
    kani::cover!(seed[0] == 0xdeadbeef && seed[7] == 1, "arbitrary seed reachable");
}

static mut TAG_N: usize = 0;
#[allow(static_mut_refs)]
fn add_tag(_a: u32, _b: u32) -> u32 {
    unsafe {
        let n = TAG_N;
        TAG_N += 1;
        if n % 4 == 3 {
            (16 + n / 4) as u32
        } else {
            0
        }
    }
}

/// (B) placement of the results in the final table.
#[kani::proof]
#[kani::unwind(1300)]
#[kani::stub(rand_hc::Hc128Core::sixteen_steps, noop_sixteen)]
#[kani::stub(u32::wrapping_add, add_tag)]
#[allow(static_mut_refs)]
pub fn expand_placement() {
    let seed: [u32; 8] = kani::any();
    let core = Hc128Core::verif_init(seed);
    assert!(unsafe { TAG_N } == NADD);
    let t = core.verif_t();
    let mut ok = true;
    let mut k = 0;
    while k < 1024 {
        ok &= t[k] == (k + 256) as u32;
        k += 1;
    }
    assert!(ok);
    kani::cover!(seed[3] == 7, "reachable");
}

// (C) `expand_tagged`: the operands check of (A) with every addition returning
// a distinct CONCRETE tag instead of a fresh variable, and the seed symbolic.
// The run constant-folds except for the 16 seed-derived words, so it fits where
// (A) does not. What it decides: for every seed, (1) the initial 16 words are
// K K IV IV (their reads show up as operands of steps 16..31), and (2) for this
// one assignment of distinct result values, the operands of every addition
// are the recurrence's functions of the right earlier results - a dataflow
// test of the recurrence (one run, not a statement over all values), labelled
// as such in the evidence.
static mut TG_N: usize = 0;
static mut TG_OK: bool = true;
static mut TG_PREV: u32 = 0;
static mut TG_W: [u32; 16] = [0; 16];
fn tag_of(n: usize) -> u32 {
    0x5000_0000u32 ^ ((n as u32).wrapping_mul(0x9E37_79B1)).rotate_left(5)
}
#[allow(static_mut_refs)]
fn add_tagged(a: u32, b: u32) -> u32 {
    unsafe {
        let r = tag_of(TG_N);
        if TG_N < NADD {
            let i = 16 + TG_N / 4;
            match TG_N % 4 {
                0 => TG_OK &= pair(a, b, crate::ref_hc128::f2(TG_W[(i - 2) % 16]), TG_W[(i - 7) % 16]),
                1 => TG_OK &= pair(a, b, TG_PREV, crate::ref_hc128::f1(TG_W[(i - 15) % 16])),
                2 => TG_OK &= pair(a, b, TG_PREV, TG_W[(i - 16) % 16]),
                _ => {
                    TG_OK &= pair(a, b, TG_PREV, i as u32);
                    TG_W[i % 16] = r;
                }
            }
            TG_PREV = r;
        }
        TG_N += 1;
        r
    }
}

#[kani::proof]
#[kani::unwind(1300)]
#[kani::stub(rand_hc::Hc128Core::sixteen_steps, noop_sixteen)]
#[kani::stub(u32::wrapping_add, add_tagged)]
pub fn expand_tagged() {
    expand_tagged_body(kani::any(), true);
}

#[allow(static_mut_refs)]
fn expand_tagged_body(seed: [u32; 8], symbolic: bool) {
    let mut i = 0;
    while i < 4 {
        unsafe {
            TG_W[i] = seed[i];
            TG_W[i + 4] = seed[i];
            TG_W[i + 8] = seed[4 + i];
            TG_W[i + 12] = seed[4 + i];
        }
        i += 1;
    }
    let core = Hc128Core::verif_init(seed);
    assert!(unsafe { TG_N } == NADD);
    assert!(unsafe { TG_OK });
    let t = core.verif_t();
    let mut ok = true;
    let mut k = 0;
    while k < 1024 {
        ok &= t[k] == tag_of(4 * (k + 256 - 16) + 3);
        k += 1;
    }
    assert!(ok);
    kani::cover!(!symbolic || seed[6] != seed[7], "IV words 2 and 3 differ");
}

fn add_fresh(_a: u32, _b: u32) -> u32 {
    kani::any()
}

/// Panic-freedom of init for every seed (C14): every wrapping addition returns
/// an arbitrary value (an over-approximation of the real sums), so any checked
/// arithmetic or index computed from table words is exercised with arbitrary
/// operands; Kani's built-in checks inside init are what this harness is for.
#[kani::proof]
#[kani::unwind(1300)]
#[kani::stub(rand_hc::Hc128Core::sixteen_steps, noop_sixteen)]
#[kani::stub(u32::wrapping_add, add_fresh)]
#[allow(static_mut_refs)]
pub fn expand_panicfree() {
    let seed: [u32; 8] = kani::any();
    let core = Hc128Core::verif_init(seed);
    assert!(core.verif_counter() == 0);
    assert!(unsafe { SIXTEEN_CALLS } == 64 && unsafe { SIXTEEN_OK });
    kani::cover!(seed[0] == 0xffff_ffff, "all-ones key word");
}

// ------------------------------------------------------------------- steps

fn arbitrary_core() -> (Hc128Core, [u32; 1024]) {
    let t0: [u32; 1024] = kani::any();
    let mut core = Hc128Core::verif_zeroed();
    *core.verif_t_mut() = t0;
    (core, t0)
}

/// step_p on every table and every five in-range indices (independent):
/// P[i] += g1(P[i3], P[i10], P[i511]); returns h1(P[i12]) ^ P[i]; frame.
#[kani::proof]
pub fn step_p() {
    let (mut core, t0) = arbitrary_core();
    let i: usize = kani::any();
    let i511: usize = kani::any();
    let i3: usize = kani::any();
    let i10: usize = kani::any();
    let i12: usize = kani::any();
    kani::assume(i < 512 && i511 < 512 && i3 < 512 && i10 < 512 && i12 < 512);
    let out = core.verif_step_p(i, i511, i3, i10, i12);
    let newp = t0[i].wrapping_add(crate::ref_hc128::g1(t0[i3], t0[i10], t0[i511]));
    let x = if i12 == i { newp } else { t0[i12] };
    let h1 = t0[512 + (x & 0xff) as usize].wrapping_add(t0[512 + 256 + ((x >> 16) & 0xff) as usize]);
    assert!(out == h1 ^ newp);
    let k: usize = kani::any();
    kani::assume(k < 1024);
    let t = core.verif_t();
    if k == i {
        assert!(t[k] == newp);
    } else {
        assert!(t[k] == t0[k]);
    }
    assert!(core.verif_counter() == 0);
    kani::cover!(i12 != i && k == i, "updated entry");
}

/// step_q: the mirrored step on Q with left rotations and h2 reading P.
#[kani::proof]
pub fn step_q() {
    let (mut core, t0) = arbitrary_core();
    let i: usize = kani::any();
    let i511: usize = kani::any();
    let i3: usize = kani::any();
    let i10: usize = kani::any();
    let i12: usize = kani::any();
    kani::assume(i < 512 && i511 < 512 && i3 < 512 && i10 < 512 && i12 < 512);
    let out = core.verif_step_q(i, i511, i3, i10, i12);
    let newq = t0[512 + i].wrapping_add(crate::ref_hc128::g2(t0[512 + i3], t0[512 + i10], t0[512 + i511]));
    let x = if i12 == i { newq } else { t0[512 + i12] };
    let h2 = t0[(x & 0xff) as usize].wrapping_add(t0[256 + ((x >> 16) & 0xff) as usize]);
    assert!(out == h2 ^ newq);
    let k: usize = kani::any();
    kani::assume(k < 1024);
    let t = core.verif_t();
    if k == 512 + i {
        assert!(t[k] == newq);
    } else {
        assert!(t[k] == t0[k]);
    }
    kani::cover!(i12 != i && k == 512 + i, "updated entry");
}

// -------------------------------------------------------------- call shapes
// Recording stubs for step_p / step_q: log (kind, five indices) and return an
// arbitrary word; the table is not touched.
static mut ST_N: usize = 0;
static mut ST_KIND: [u8; 16] = [0; 16]; // 1 = P, 2 = Q
static mut ST_IDX: [[usize; 5]; 16] = [[0; 5]; 16];
static mut ST_RET: [u32; 16] = [0; 16];

#[allow(static_mut_refs)]
fn rec_step(kind: u8, idx: [usize; 5]) -> u32 {
    unsafe {
        let r: u32 = kani::any();
        if ST_N < 16 {
            ST_KIND[ST_N] = kind;
            ST_IDX[ST_N] = idx;
            ST_RET[ST_N] = r;
        }
        ST_N += 1;
        r
    }
}
fn step_p_rec(_c: &mut Hc128Core, i: usize, i511: usize, i3: usize, i10: usize, i12: usize) -> u32 {
    rec_step(1, [i, i511, i3, i10, i12])
}
fn step_q_rec(_c: &mut Hc128Core, i: usize, i511: usize, i3: usize, i10: usize, i12: usize) -> u32 {
    rec_step(2, [i, i511, i3, i10, i12])
}

/// Is the recorded call sequence the 16 specification steps starting at step
/// number `counter`: call k is a P step iff bit 9 of counter+k is 0, on the
/// indices (j, j+1, j-3, j-10, j-12) mod 512 with j = (counter+k) mod 512.
#[allow(static_mut_refs)]
fn shape_ok(counter: usize) -> bool {
    let mut ok = unsafe { ST_N } == 16;
    let mut k = 0;
    while k < 16 {
        let s = counter.wrapping_add(k);
        let j = s % 512;
        let kind = if s & 512 == 0 { 1 } else { 2 };
        let e = [
            j,
            crate::ref_hc128::sub512(j, 511),
            crate::ref_hc128::sub512(j, 3),
            crate::ref_hc128::sub512(j, 10),
            crate::ref_hc128::sub512(j, 12),
        ];
        unsafe {
            ok &= ST_KIND[k] == kind;
            ok &= ST_IDX[k][0] == e[0] && ST_IDX[k][1] == e[1] && ST_IDX[k][2] == e[2] && ST_IDX[k][3] == e[3] && ST_IDX[k][4] == e[4];
        }
        k += 1;
    }
    ok
}

/// generate(): for every block counter (any multiple of 16 in the whole usize
/// range, so every wrap of the 1024 cycle and of the counter itself): exactly
/// the 16 specification steps in order, results[k] = k-th step's word,
/// counter advanced by 16 (wrapping), no index assertion fires.
#[kani::proof]
#[kani::unwind(18)]
#[kani::stub(rand_hc::Hc128Core::step_p, step_p_rec)]
#[kani::stub(rand_hc::Hc128Core::step_q, step_q_rec)]
#[allow(static_mut_refs)]
pub fn generate_seq() {
    use rand_core::block::BlockRngCore;
    let mut core = Hc128Core::verif_zeroed();
    let b: usize = kani::any();
    kani::assume(b <= usize::MAX / 16);
    let counter = b * 16;
    core.verif_set_counter(counter);
    let mut results = [0u32; 16];
    core.generate(&mut results);
    assert!(shape_ok(counter));
    let mut k = 0;
    while k < 16 {
        assert!(results[k] == unsafe { ST_RET[k] });
        k += 1;
    }
    assert!(core.verif_counter() == counter.wrapping_add(16));
    kani::cover!(counter & 512 != 0, "Q block");
    kani::cover!(counter & 512 == 0 && counter > 1024, "P block after a wrap");
    kani::cover!(counter % 512 == 0, "block at a table boundary (ee wraps)");
    kani::cover!(counter % 512 == 496, "last block of a phase (dd wraps)");
    kani::cover!(counter == usize::MAX - 15, "counter wraps");
}

/// sixteen_steps() (initialisation blocks), every counter in {0,16,..,1008}:
/// same call sequence, the k-th word replaces t[counter+k], counter += 16.
#[kani::proof]
#[kani::unwind(18)]
#[kani::stub(rand_hc::Hc128Core::step_p, step_p_rec)]
#[kani::stub(rand_hc::Hc128Core::step_q, step_q_rec)]
#[allow(static_mut_refs)]
pub fn sixteen_seq() {
    let (mut core, t0) = arbitrary_core();
    let b: usize = kani::any();
    kani::assume(b < 64);
    let counter = b * 16;
    core.verif_set_counter(counter);
    core.verif_sixteen_steps();
    assert!(shape_ok(counter));
    assert!(core.verif_counter() == counter + 16);
    let k: usize = kani::any();
    kani::assume(k < 1024);
    let t = core.verif_t();
    if k >= counter && k < counter + 16 {
        assert!(t[k] == unsafe { ST_RET[k - counter] });
    } else {
        assert!(t[k] == t0[k]);
    }
    kani::cover!(counter >= 512 && k == counter + 15, "Q block, last word");
    kani::cover!(counter < 512 && k == counter, "P block, first word");
}


