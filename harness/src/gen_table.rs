//! One table of the 15 rand_xoshiro generator types. `$cb!` is invoked once per
//! type with:
//!   module name, type, word type, number of state words, seed length in bytes,
//!   native output method, reference model fn, seed constructor (bytes -> Seed),
//!   rule for the non-native width (`pair` = next_u64 is (second<<32)|first,
//!   `upper` / `lower` = next_u32 is that half of next_u64, `mix4` = SplitMix64),
//!   linear (`lin`) or counter-based (`ctr`).
macro_rules! xoshiro_table {
    ($cb:ident) => {
        $cb!(xoroshiro64star, rand_xoshiro::Xoroshiro64Star, u32, 2, 8, next_u32, crate::ref_xoshiro::xoroshiro64star, arr, pair, lin);
        $cb!(xoroshiro64starstar, rand_xoshiro::Xoroshiro64StarStar, u32, 2, 8, next_u32, crate::ref_xoshiro::xoroshiro64starstar, arr, pair, lin);
        $cb!(xoroshiro128plus, rand_xoshiro::Xoroshiro128Plus, u64, 2, 16, next_u64, crate::ref_xoshiro::xoroshiro128plus, arr, upper, lin);
        $cb!(xoroshiro128plusplus, rand_xoshiro::Xoroshiro128PlusPlus, u64, 2, 16, next_u64, crate::ref_xoshiro::xoroshiro128plusplus, arr, lower, lin);
        $cb!(xoroshiro128starstar, rand_xoshiro::Xoroshiro128StarStar, u64, 2, 16, next_u64, crate::ref_xoshiro::xoroshiro128starstar, arr, lower, lin);
        $cb!(xoshiro128plus, rand_xoshiro::Xoshiro128Plus, u32, 4, 16, next_u32, crate::ref_xoshiro::xoshiro128plus, arr, pair, lin);
        $cb!(xoshiro128plusplus, rand_xoshiro::Xoshiro128PlusPlus, u32, 4, 16, next_u32, crate::ref_xoshiro::xoshiro128plusplus, arr, pair, lin);
        $cb!(xoshiro128starstar, rand_xoshiro::Xoshiro128StarStar, u32, 4, 16, next_u32, crate::ref_xoshiro::xoshiro128starstar, arr, pair, lin);
        $cb!(xoshiro256plus, rand_xoshiro::Xoshiro256Plus, u64, 4, 32, next_u64, crate::ref_xoshiro::xoshiro256plus, arr, upper, lin);
        $cb!(xoshiro256plusplus, rand_xoshiro::Xoshiro256PlusPlus, u64, 4, 32, next_u64, crate::ref_xoshiro::xoshiro256plusplus, arr, upper, lin);
        $cb!(xoshiro256starstar, rand_xoshiro::Xoshiro256StarStar, u64, 4, 32, next_u64, crate::ref_xoshiro::xoshiro256starstar, arr, upper, lin);
        $cb!(xoshiro512plus, rand_xoshiro::Xoshiro512Plus, u64, 8, 64, next_u64, crate::ref_xoshiro::xoshiro512plus, s512, upper, lin);
        $cb!(xoshiro512plusplus, rand_xoshiro::Xoshiro512PlusPlus, u64, 8, 64, next_u64, crate::ref_xoshiro::xoshiro512plusplus, s512, upper, lin);
        $cb!(xoshiro512starstar, rand_xoshiro::Xoshiro512StarStar, u64, 8, 64, next_u64, crate::ref_xoshiro::xoshiro512starstar, s512, upper, lin);
    };
}

/// Build the `Seed` value of a generator from a byte array.
macro_rules! mk_seed {
    (arr, $b:expr) => {
        $b
    };
    (s512, $b:expr) => {
        rand_xoshiro::Seed512($b)
    };
}

/// Little-endian words of a byte array (the documented seed decoding).
macro_rules! le_words {
    (u32, $n:expr, $b:expr) => {{
        let mut w = [0u32; $n];
        let mut i = 0;
        while i < $n {
            w[i] = u32::from_le_bytes([$b[4 * i], $b[4 * i + 1], $b[4 * i + 2], $b[4 * i + 3]]);
            i += 1;
        }
        w
    }};
    (u64, $n:expr, $b:expr) => {{
        let mut w = [0u64; $n];
        let mut i = 0;
        while i < $n {
            w[i] = u64::from_le_bytes([
                $b[8 * i],
                $b[8 * i + 1],
                $b[8 * i + 2],
                $b[8 * i + 3],
                $b[8 * i + 4],
                $b[8 * i + 5],
                $b[8 * i + 6],
                $b[8 * i + 7],
            ]);
            i += 1;
        }
        w
    }};
}
