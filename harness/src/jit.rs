//! JitterRng harnesses: C12 (procedure), C13 (test_timer), C14 (panic freedom),
//! C15 (bijectivity), C16 (half-word debt).
//!
//! Environment: the timer is `fn timer() -> u64 { kani::any() }` (every reading
//! an arbitrary u64) that counts readings and, where a harness needs it, feeds
//! an on-line model. The two noise sources `memaccess` and `lfsr_time` have
//! their own harnesses and are replaced by recording stubs elsewhere; the stubs
//! consume exactly the readings their own harnesses prove they consume and
//! havoc what the callee may write.
use crate::ref_jitter as rj;
use rand_core::RngCore;
use rand_jitter::{JitterRng, TimerError};

pub type Tm = fn() -> u64;
pub type Rng = JitterRng<Tm>;

pub static mut READS: usize = 0;
pub static mut LAST_READ: u64 = 0;

#[allow(static_mut_refs)]
pub fn timer() -> u64 {
    unsafe {
        let v: u64 = kani::any();
        READS += 1;
        LAST_READ = v;
        v
    }
}

#[allow(static_mut_refs)]
pub fn reads() -> usize {
    unsafe { READS }
}

pub fn new_rng() -> Rng {
    JitterRng::new_with_timer(timer as Tm)
}

pub fn arbitrary_rng() -> Rng {
    let mut r = new_rng();
    r.verif_set_pool(kani::any());
    let idx: u16 = kani::any();
    kani::assume(idx < 2048);
    r.verif_set_state(idx, kani::any());
    let rounds: u8 = kani::any();
    kani::assume(rounds >= 1);
    r.set_rounds(rounds);
    r
}

// =========================================================== C12 / C15: LFSR
pub mod lfsr {
    use super::*;

    /// One fold (var_rounds = false): pool' = LFSR(pool, time), no reading.
    #[kani::proof]
    #[kani::unwind(66)]
    pub fn fold_fixed() {
        let mut r = arbitrary_rng();
        let pool = r.verif_pool();
        let time: u64 = kani::any();
        let before = r.verif_state();
        r.verif_lfsr_time(time, false);
        assert!(r.verif_pool() == rj::lfsr(pool, time));
        assert!(reads() == 0);
        assert!(r.verif_state() == before);
        kani::cover!(time >> 63 == 1 && pool >> 63 == 1, "high bits");
    }

    /// var_rounds = true: exactly one reading (the loop count), 0..15
    /// throw-away folds, and the pool result is the same single fold.
    #[kani::proof]
    #[kani::unwind(66)]
    pub fn fold_var() {
        let mut r = arbitrary_rng();
        let pool = r.verif_pool();
        let time: u64 = kani::any();
        let before = r.verif_state();
        r.verif_lfsr_time(time, true);
        assert!(r.verif_pool() == rj::lfsr(pool, time));
        assert!(reads() == 1);
        assert!(r.verif_state() == before);
        kani::cover!(rj::fold(unsafe { LAST_READ } ^ pool, 4) == 15, "15 throw-away rounds");
        kani::cover!(rj::fold(unsafe { LAST_READ } ^ pool, 4) == 0, "no throw-away round");
    }

    /// Quick-tier variant of `fold_var`: the loop-count reading is restricted
    /// to those that select 0 or 1 throw-away rounds (the full 0..15 range
    /// takes 390 s and runs in the thorough tier).
    #[kani::proof]
    #[kani::unwind(66)]
    pub fn fold_var_small() {
        let mut r = arbitrary_rng();
        let pool = r.verif_pool();
        let time: u64 = kani::any();
        let before = r.verif_state();
        r.verif_lfsr_time(time, true);
        kani::assume(rj::fold(unsafe { LAST_READ } ^ pool, 4) <= 1);
        assert!(r.verif_pool() == rj::lfsr(pool, time));
        assert!(reads() == 1);
        assert!(r.verif_state() == before);
        kani::cover!(rj::fold(unsafe { LAST_READ } ^ pool, 4) == 1, "one throw-away round");
    }

    /// C15: for each fixed time value the fold is one-to-one in the pool.
    #[kani::proof]
    #[kani::unwind(66)]
    pub fn inj_pool() {
        let time: u64 = kani::any();
        let a: u64 = kani::any();
        let b: u64 = kani::any();
        kani::assume(a != b);
        let mut r = new_rng();
        r.verif_set_pool(a);
        r.verif_lfsr_time(time, false);
        let fa = r.verif_pool();
        r.verif_set_pool(b);
        r.verif_lfsr_time(time, false);
        let fb = r.verif_pool();
        assert!(fa != fb);
    }

    /// C15: for each fixed pool value the fold is one-to-one in the 64-bit time.
    #[kani::proof]
    #[kani::unwind(66)]
    pub fn inj_time() {
        let pool: u64 = kani::any();
        let t1: u64 = kani::any();
        let t2: u64 = kani::any();
        kani::assume(t1 != t2);
        let mut r = new_rng();
        r.verif_set_pool(pool);
        r.verif_lfsr_time(t1, false);
        let f1 = r.verif_pool();
        r.verif_set_pool(pool);
        r.verif_lfsr_time(t2, false);
        let f2 = r.verif_pool();
        assert!(f1 != f2);
    }

    /// random_loop_cnt(n_bits): one reading, XORed with the pool, folded.
    #[kani::proof]
    #[kani::unwind(66)]
    pub fn loop_cnt() {
        let mut r = arbitrary_rng();
        let pool = r.verif_pool();
        let bits: u32 = kani::any();
        kani::assume(bits == 4 || bits == 7 || bits == 1);
        let c = r.verif_random_loop_cnt(bits);
        assert!(reads() == 1);
        assert!(c == rj::fold(unsafe { LAST_READ } ^ pool, bits));
        assert!(c < (1 << bits));
        assert!(r.verif_pool() == pool);
    }
}

// ================================================================ memaccess
pub mod mem {
    use super::*;

    /// memaccess: new index = (old + 31 * (128 + cnt)) mod 2048 with cnt the
    /// folded reading (var_rounds) or 0; one reading iff var_rounds; the pool
    /// and the other fields are untouched; never out of bounds.
    #[kani::proof]
    #[kani::unwind(146)]
    pub fn index() {
        let mut r = arbitrary_rng();
        let pool = r.verif_pool();
        let (rounds, old, half) = r.verif_state();
        let var: bool = kani::any();
        r.verif_memaccess(var);
        let cnt = if var { rj::fold(unsafe { LAST_READ } ^ pool, 4) as usize } else { 0 };
        let (rounds2, new, half2) = r.verif_state();
        assert!(reads() == if var { 1 } else { 0 });
        assert!(new as usize == (old as usize + 31 * (128 + cnt)) % 2048);
        assert!(r.verif_pool() == pool && rounds2 == rounds && half2 == half);
        kani::cover!(var && cnt == 15, "longest loop");
        kani::cover!(!var, "fixed loop");
    }
}

// ================================================================ C12 / C15: stir
pub mod stir {
    use super::*;

    /// The constant-time stir equals the documented branching form.
    #[kani::proof]
    #[kani::unwind(66)]
    pub fn model() {
        let mut r = arbitrary_rng();
        let pool = r.verif_pool();
        let before = r.verif_state();
        r.verif_stir();
        assert!(r.verif_pool() == rj::stir(pool));
        assert!(reads() == 0 && r.verif_state() == before);
        kani::cover!(pool == u64::MAX, "all bits set");
    }

    fn stir_of(x: u64) -> u64 {
        let mut r = new_rng();
        r.verif_set_pool(x);
        r.verif_stir();
        r.verif_pool()
    }

    /// C15: flipping bit I of the pool changes the stirred value by the
    /// constant K_I = stir(e_I) ^ stir(0), for every pool value: stir is
    /// affine; that the 64 vectors K_I are independent is the exact rank
    /// certificate (vlib/gf2.py).
    pub fn flip<const I: u32>() {
        let a: u64 = kani::any();
        let k = stir_of(1u64 << I) ^ stir_of(0);
        assert!(stir_of(a ^ (1u64 << I)) ^ stir_of(a) == k);
    }
}

// ================================================================ C12: measure
// Recording stubs for the two noise sources.
pub static mut MEM_CALLS: usize = 0;
pub static mut MEM_VAR_OK: bool = true;
pub static mut LFSR_CALLS: usize = 0;
pub static mut LFSR_TIME: u64 = 0;
pub static mut LFSR_VAR_OK: bool = true;
pub static mut LFSR_POOL_IN: u64 = 0;
pub static mut LFSR_POOL_OUT: u64 = 0;
pub static mut LFSR_READS_AT: usize = 0;
pub static mut MEM_READS_AT: usize = 0;

#[allow(static_mut_refs)]
pub fn memaccess_stub<F: Fn() -> u64 + Send + Sync>(r: &mut JitterRng<F>, _mem: &mut [u8; 2048], var_rounds: bool) {
    unsafe {
        MEM_CALLS += 1;
        MEM_VAR_OK &= var_rounds;
        MEM_READS_AT = READS;
    }
    if var_rounds {
        let _ = timer();
    }
    let idx: u16 = kani::any();
    kani::assume(idx < 2048);
    let (_, _, half) = r.verif_state();
    r.verif_set_state(idx, half);
}

#[allow(static_mut_refs)]
pub fn lfsr_stub<F: Fn() -> u64 + Send + Sync>(r: &mut JitterRng<F>, time: u64, var_rounds: bool) {
    unsafe {
        LFSR_CALLS += 1;
        LFSR_VAR_OK &= var_rounds;
        LFSR_TIME = time;
        LFSR_POOL_IN = r.verif_pool();
        LFSR_READS_AT = READS;
    }
    if var_rounds {
        let _ = timer();
    }
    let p: u64 = kani::any();
    unsafe {
        LFSR_POOL_OUT = p;
    }
    r.verif_set_pool(p);
}

pub mod measure {
    use super::*;

    /// One measurement from every collector state and every readings:
    /// reading order (memaccess's, the time stamp, lfsr's), the delta is the
    /// 32-bit truncated difference passed sign-extended to the fold, stuck iff
    /// delta, first or second difference is zero (mod 2^32), rotate by 7 iff
    /// accepted, collector state updated.
    #[kani::proof]
    #[kani::unwind(4)]
    #[kani::stub(rand_jitter::JitterRng::memaccess, memaccess_stub)]
    #[kani::stub(rand_jitter::JitterRng::lfsr_time, lfsr_stub)]
    #[allow(static_mut_refs)]
    pub fn one() {
        let mut r = arbitrary_rng();
        let prev_time: u64 = kani::any();
        let ld: i32 = kani::any();
        let ld2: i32 = kani::any();
        let (accepted, pt, nld, nld2) = r.verif_measure_jitter(prev_time, ld, ld2);
        unsafe {
            assert!(MEM_CALLS == 1 && LFSR_CALLS == 1 && MEM_VAR_OK && LFSR_VAR_OK);
            assert!(MEM_READS_AT == 0 && LFSR_READS_AT == 2 && READS == 3);
        }
        // the time stamp is reading number 2 = prev_time of the next round
        let delta = pt.wrapping_sub(prev_time) as i64 as i32;
        assert!(unsafe { LFSR_TIME } == delta as i64 as u64);
        let (stuck, eld, eld2) = rj::stuck(ld, ld2, delta);
        assert!(accepted == !stuck);
        assert!(nld == eld && nld2 == eld2);
        let out = unsafe { LFSR_POOL_OUT };
        assert!(r.verif_pool() == if accepted { out.rotate_left(7) } else { out });
        kani::cover!(accepted, "accepted");
        kani::cover!(!accepted && delta != 0, "stuck on a difference");
        kani::cover!(delta < 0, "negative delta");
    }
}

// ================================================================ C12: collection
pub mod collect {
    use super::*;
    pub static mut STIR_CALLS: usize = 0;
    pub static mut STIR_IN: u64 = 0;
    pub static mut STIR_OUT: u64 = 0;
    // on-line model of the measurements, fed by the lfsr stub
    pub static mut M_N: usize = 0; // measurements so far
    pub static mut M_LD: i32 = 0;
    pub static mut M_LD2: i32 = 0;
    pub static mut M_STUCK: usize = 0; // stuck measurements after the priming one
    pub static mut M_ACCEPTED: usize = 0; // accepted measurements after the priming one
    pub static mut M_EXPECT_POOL: u64 = 0;
    pub static mut M_OK: bool = true;
    pub static mut MAX_STUCK: usize = 0;

    #[allow(static_mut_refs)]
    pub fn stir_stub<F: Fn() -> u64 + Send + Sync>(r: &mut JitterRng<F>) {
        unsafe {
            STIR_CALLS += 1;
            STIR_IN = r.verif_pool();
            let v: u64 = kani::any();
            STIR_OUT = v;
            r.verif_set_pool(v);
        }
    }

    #[allow(static_mut_refs)]
    pub fn lfsr_model_stub<F: Fn() -> u64 + Send + Sync>(r: &mut JitterRng<F>, time: u64, var_rounds: bool) {
        unsafe {
            // pool on entry = what the previous measurement left
            M_OK &= var_rounds && r.verif_pool() == M_EXPECT_POOL;
            // reading discipline: 1 priming + 3 per measurement, this is the third of its measurement
            M_OK &= READS == 1 + 3 * M_N + 2;
            // the fold receives the sign-extended 32-bit delta
            let delta = time as i64 as i32;
            M_OK &= time == delta as i64 as u64;
            let _ = timer();
            let p: u64 = kani::any();
            r.verif_set_pool(p);
            let (stuck, ld, ld2) = rj::stuck(M_LD, M_LD2, delta);
            M_LD = ld;
            M_LD2 = ld2;
            if M_N > 0 {
                if stuck {
                    M_STUCK += 1;
                } else {
                    M_ACCEPTED += 1;
                }
            }
            // bound of the claim: at most MAX_STUCK stuck measurements per call
            kani::assume(M_STUCK <= MAX_STUCK);
            // prefix harnesses: cut paths with more than PREFIX_CAP measurements
            kani::assume(M_N < PREFIX_CAP);
            M_EXPECT_POOL = if stuck { p } else { p.rotate_left(7) };
            M_N += 1;
        }
    }

    /// next_u64 = one collection: a priming measurement whose verdict is
    /// ignored, then measurements until `rounds` are accepted, one stir, the
    /// stirred pool is returned; 1 + 3 * measurements readings.
    /// Bound: rounds <= 3, at most S stuck measurements.
    #[allow(static_mut_refs)]
    pub fn body<const S: usize>() {
        unsafe {
            MAX_STUCK = S;
        }
        let mut r = arbitrary_rng();
        let (rounds, _, _) = r.verif_state();
        kani::assume(rounds <= 3);
        unsafe {
            M_EXPECT_POOL = r.verif_pool();
        }
        let v = r.next_u64();
        unsafe {
            assert!(M_OK);
            assert!(M_ACCEPTED == rounds as usize);
            assert!(M_N == 1 + rounds as usize + M_STUCK);
            assert!(READS == 1 + 3 * M_N);
            assert!(MEM_CALLS == M_N && MEM_VAR_OK);
            assert!(STIR_CALLS == 1 && STIR_IN == M_EXPECT_POOL && v == STIR_OUT);
            assert!(r.verif_pool() == v);
            let (_, _, half) = r.verif_state();
            assert!(!half);
            kani::cover!(M_STUCK == S && rounds == 3, "maximal retries, three rounds");
            kani::cover!(M_STUCK == 0 && rounds == 1, "one clean round");
        }
    }

    #[kani::proof]
    #[kani::unwind(6)]
    #[kani::stub(rand_jitter::JitterRng::memaccess, memaccess_stub)]
    #[kani::stub(rand_jitter::JitterRng::lfsr_time, lfsr_model_stub)]
    #[kani::stub(rand_jitter::JitterRng::stir_pool, stir_stub)]
    pub fn s2() {
        body::<2>()
    }

    #[kani::proof]
    #[kani::unwind(8)]
    #[kani::stub(rand_jitter::JitterRng::memaccess, memaccess_stub)]
    #[kani::stub(rand_jitter::JitterRng::lfsr_time, lfsr_model_stub)]
    #[kani::stub(rand_jitter::JitterRng::stir_pool, stir_stub)]
    pub fn s4() {
        body::<4>()
    }

    pub static mut PREFIX_CAP: usize = usize::MAX;

    /// Every round count 1..=255 (C14: the round arithmetic of the collection
    /// loop must not overflow; only 0 is documented to panic): the first 5
    /// measurements of a collection for an arbitrary round count. Paths with
    /// more measurements are cut by an assumption in the fold stub (bound of
    /// this harness: a prefix of the loop; its header and per-iteration
    /// arithmetic are executed for every round count).
    #[kani::proof]
    #[kani::unwind(8)]
    #[kani::stub(rand_jitter::JitterRng::memaccess, memaccess_stub)]
    #[kani::stub(rand_jitter::JitterRng::lfsr_time, lfsr_model_stub)]
    #[kani::stub(rand_jitter::JitterRng::stir_pool, stir_stub)]
    #[allow(static_mut_refs)]
    pub fn any_rounds_prefix() {
        unsafe {
            MAX_STUCK = 1;
            PREFIX_CAP = 5;
        }
        let mut r = arbitrary_rng();
        let (rounds, _, _) = r.verif_state();
        unsafe {
            M_EXPECT_POOL = r.verif_pool();
        }
        kani::cover!(rounds == 255, "maximal round count");
        let v = r.next_u64();
        // only reachable for rounds <= 4
        unsafe {
            assert!(M_OK && v == STIR_OUT && (rounds as usize) < 5);
        }
    }

    /// timer_stats(var): two readings around one memaccess and one fold of
    /// the first reading; returns their (wrapping) difference.
    #[kani::proof]
    #[kani::unwind(4)]
    #[kani::stub(rand_jitter::JitterRng::memaccess, memaccess_stub)]
    #[kani::stub(rand_jitter::JitterRng::lfsr_time, lfsr_stub)]
    #[allow(static_mut_refs)]
    pub fn timer_stats() {
        let mut r = arbitrary_rng();
        let var: bool = kani::any();
        // the generic stubs insist on var_rounds; timer_stats passes `var` through
        let d = r.timer_stats(var);
        unsafe {
            assert!(MEM_CALLS == 1 && LFSR_CALLS == 1);
            assert!(MEM_VAR_OK == var && LFSR_VAR_OK == var);
            assert!(READS == if var { 4 } else { 2 });
            assert!(MEM_READS_AT == 1);
            assert!(d == LAST_READ.wrapping_sub(LFSR_TIME) as i64);
        }
        kani::cover!(var, "variable rounds");
        kani::cover!(!var, "fixed rounds");
    }
}

// ================================================================ C13: test_timer
pub mod tt {
    use super::*;
    // On-line model of the documented conditions, fed by the timer itself.
    // Reading 0 primes; probe p (0..400) consumes readings 1+4p .. 4+4p:
    //   time, (memaccess's reading), (lfsr's reading), time2.
    pub static mut N: usize = 0;
    pub static mut CUR_TIME: u64 = 0;
    pub static mut ZERO_READING: bool = false;
    pub static mut ZERO_DELTA: bool = false;
    pub static mut BACKWARDS: u64 = 0;
    pub static mut COUNT_MOD: u64 = 0;
    pub static mut COUNT_STUCK: u64 = 0;
    pub static mut DELTA_SUM: u64 = 0;
    pub static mut OLD_DELTA: i32 = 0;
    pub static mut LD: i32 = 0;
    pub static mut LD2: i32 = 0;
    pub static mut PROBES_DONE: usize = 0;
    // quick-tier variants: the first PREFIX probes follow a fixed pattern PAT
    // (their readings are concrete), the remaining probes are fully symbolic
    pub static mut PREFIX: usize = 0;
    pub static mut PAT: u8 = 0;

    /// Concrete reading number n (>= 1) of the prefix pattern.
    fn pattern(pat: u8, n: usize) -> u64 {
        let probe = (n - 1) / 4;
        let phase = (n - 1) % 4;
        let base = 1_000_000 + 10_000 * probe as u64;
        let d: u64 = match pat {
            // tiny variations: deltas alternate 100, 101 (|change| = 1)
            0 => 100 + (probe % 2) as u64,
            // coarse: 262 counted deltas that are multiples of 100 with large
            // variations (threshold 270), then deltas that are not
            1 => {
                if probe < 362 {
                    100 * (1 + (probe * probe) % 7) as u64 + 100 * ((probe % 3) as u64) * 7
                } else {
                    1037 + 13 * ((probe * probe) % 7) as u64 + (probe % 2) as u64
                }
            }
            // stuck: constant delta for 262 counted probes (threshold 270), then varied
            _ => {
                if probe < 362 {
                    137
                } else {
                    1000 + 37 * ((probe * probe) % 11) as u64 + (probe % 2) as u64
                }
            }
        };
        match phase {
            0 => base,
            1 => base + 1,
            2 => base + 2,
            _ => base + d,
        }
    }

    #[allow(static_mut_refs)]
    pub fn model_timer() -> u64 {
        unsafe {
            let n = N;
            let v: u64 = if n >= 1 && (n - 1) / 4 < PREFIX { pattern(PAT, n) } else { kani::any() };
            N += 1;
            if n >= 1 {
                let phase = (n - 1) % 4;
                let probe = (n - 1) / 4;
                if phase == 0 {
                    CUR_TIME = v;
                } else if phase == 3 {
                    let time = CUR_TIME;
                    let time2 = v;
                    if time == 0 || time2 == 0 {
                        ZERO_READING = true;
                    } else {
                        let delta = time2.wrapping_sub(time) as i64 as i32;
                        if delta == 0 {
                            ZERO_DELTA = true;
                        } else if probe >= 100 {
                            let (st, a, b) = rj::stuck(LD, LD2, delta);
                            LD = a;
                            LD2 = b;
                            if st {
                                COUNT_STUCK += 1;
                            }
                            if time2 <= time {
                                BACKWARDS += 1;
                            }
                            if delta % 100 == 0 {
                                COUNT_MOD += 1;
                            }
                            DELTA_SUM += delta.wrapping_sub(OLD_DELTA).unsigned_abs() as u64;
                            OLD_DELTA = delta;
                        }
                    }
                    PROBES_DONE = probe + 1;
                }
            }
            v
        }
    }

    pub fn mem_stub<F: Fn() -> u64 + Send + Sync>(_r: &mut JitterRng<F>, _mem: &mut [u8; 2048], var_rounds: bool) {
        if var_rounds {
            let _ = model_timer();
        }
    }
    pub fn fold_stub<F: Fn() -> u64 + Send + Sync>(_r: &mut JitterRng<F>, _time: u64, var_rounds: bool) {
        if var_rounds {
            let _ = model_timer();
        }
    }

    /// test_timer on every sequence of readings.
    #[kani::proof]
    #[kani::unwind(402)]
    #[kani::stub(rand_jitter::JitterRng::memaccess, mem_stub)]
    #[kani::stub(rand_jitter::JitterRng::lfsr_time, fold_stub)]
    #[allow(static_mut_refs)]
    pub fn all_readings() {
        let mut r: Rng = JitterRng::new_with_timer(model_timer as Tm);
        let res = r.test_timer();
        verdict(res);
    }

    /// Quick-tier variants (bound: the first 376 probes follow a fixed
    /// pattern - tiny variations / coarse / stuck - chosen so that the
    /// accumulators sit just below the decision thresholds, the last 24 probes
    /// and the priming reading are fully symbolic).
    #[allow(static_mut_refs)]
    fn with_prefix(pat: u8) {
        unsafe {
            PREFIX = 376;
            PAT = pat;
        }
        let mut r: Rng = JitterRng::new_with_timer(model_timer as Tm);
        let res = r.test_timer();
        verdict_core(res.clone());
        unsafe {
            kani::cover!(res.is_ok(), "Ok reachable");
            kani::cover!(res.is_err() && PROBES_DONE == 400, "Err after all probes reachable");
        }
    }
    #[kani::proof]
    #[kani::unwind(402)]
    #[kani::stub(rand_jitter::JitterRng::memaccess, mem_stub)]
    #[kani::stub(rand_jitter::JitterRng::lfsr_time, fold_stub)]
    pub fn prefix_tiny() {
        with_prefix(0)
    }
    #[kani::proof]
    #[kani::unwind(402)]
    #[kani::stub(rand_jitter::JitterRng::memaccess, mem_stub)]
    #[kani::stub(rand_jitter::JitterRng::lfsr_time, fold_stub)]
    pub fn prefix_coarse() {
        with_prefix(1)
    }
    #[kani::proof]
    #[kani::unwind(402)]
    #[kani::stub(rand_jitter::JitterRng::memaccess, mem_stub)]
    #[kani::stub(rand_jitter::JitterRng::lfsr_time, fold_stub)]
    pub fn prefix_stuck() {
        with_prefix(2)
    }

    #[allow(static_mut_refs)]
    pub fn verdict(res: Result<u8, TimerError>) {
        verdict_core(res.clone());
        unsafe {
            kani::cover!(matches!(res, Ok(128)), "Ok(128): mean 2");
            kani::cover!(matches!(res, Ok(r) if r < 20), "Ok via the log2 branch");
            kani::cover!(matches!(res, Err(TimerError::TinyVariations)), "TinyVariations");
            kani::cover!(matches!(res, Err(TimerError::TooManyStuck)), "TooManyStuck");
            kani::cover!(matches!(res, Err(TimerError::NotMonotonic)), "NotMonotonic");
            kani::cover!(matches!(res, Err(TimerError::NoTimer)), "NoTimer");
            kani::cover!(matches!(res, Err(TimerError::CoarseTimer)) && ZERO_DELTA, "CoarseTimer (zero delta)");
        }
    }

    #[allow(static_mut_refs)]
    pub fn verdict_core(res: Result<u8, TimerError>) {
        unsafe {
            let mean = DELTA_SUM / 300;
            match res {
                Ok(rounds) => {
                    assert!(PROBES_DONE == 400 && N == 1601);
                    assert!(!ZERO_READING && !ZERO_DELTA);
                    assert!(BACKWARDS <= 3);
                    assert!(mean >= 2);
                    assert!(COUNT_MOD <= 270);
                    assert!(COUNT_STUCK <= 270);
                    assert!(rounds >= 1 && rounds <= 128);
                    assert!(rounds as u64 * rj::bitlen(mean) as u64 >= 128);
                }
                Err(TimerError::NoTimer) => {
                    assert!(ZERO_READING)
                }
                Err(TimerError::CoarseTimer) => assert!(ZERO_DELTA || (PROBES_DONE == 400 && COUNT_MOD > 270)),
                Err(TimerError::NotMonotonic) => assert!(PROBES_DONE == 400 && BACKWARDS > 3),
                Err(TimerError::TinyVariations) => assert!(PROBES_DONE == 400 && mean < 2),
                Err(TimerError::TooManyStuck) => assert!(PROBES_DONE == 400 && COUNT_STUCK > 270),
                Err(_) => assert!(false),
            }
        }
    }
}

// ================================================================ C14
pub mod misc {
    use super::*;

    /// set_rounds(r) panics only for r == 0.
    #[kani::proof]
    pub fn set_rounds() {
        let mut r = new_rng();
        let n: u8 = kani::any();
        kani::assume(n >= 1);
        r.set_rounds(n);
        assert!(r.verif_state().0 == n);
    }
}

// ================================================================ C16
pub mod half {
    use super::*;
    pub static mut COLLECTS: usize = 0;
    pub static mut LAST: u64 = 0;

    /// Stub for one collection: reads the timer (at least `rounds` times is
    /// what C12 proves of the real one; here: rounds + 1), stores and returns
    /// an arbitrary 64-bit value.
    #[allow(static_mut_refs)]
    pub fn gen_stub<F: Fn() -> u64 + Send + Sync>(r: &mut JitterRng<F>) -> u64 {
        unsafe {
            COLLECTS += 1;
            let v: u64 = kani::any();
            LAST = v;
            r.verif_set_pool(v);
            v
        }
    }

    #[allow(static_mut_refs)]
    fn collects() -> usize {
        unsafe { COLLECTS }
    }
    #[allow(static_mut_refs)]
    fn last() -> u64 {
        unsafe { LAST }
    }

    /// One arbitrary operation from an arbitrary (pool, half flag)
    /// configuration against the ghost model of the half-word debt; repeated
    /// K times (the configuration space is (pool, flag), so one step from an
    /// arbitrary configuration is already inductive; K > 1 exercises the
    /// hand-over between operations).
    #[allow(static_mut_refs)]
    pub fn ops<const K: usize>() {
        let mut r = arbitrary_rng();
        // ghost: does the generator owe the high half of its pool value?
        let (_, _, mut owed) = r.verif_state();
        let mut k = 0;
        while k < K {
            let before = collects();
            let pool = r.verif_pool();
            let op: u8 = kani::any();
            kani::assume(op < 4);
            if op == 0 {
                let v = r.next_u32();
                if owed {
                    assert!(collects() == before && v == (pool >> 32) as u32);
                    owed = false;
                } else {
                    assert!(collects() == before + 1 && v == last() as u32);
                    owed = true;
                }
            } else if op == 1 {
                let v = r.next_u64();
                assert!(collects() == before + 1 && v == last());
                owed = false;
            } else if op == 2 {
                // fill_bytes(n), n in 0..=9: n/8 whole collections, then a
                // 64-bit one (tail 5..7) or a next_u32 (tail 1..4)
                let n: usize = kani::any();
                kani::assume(n <= 9);
                let mut buf = [0u8; 9];
                r.fill_bytes(&mut buf[..n]);
                if n == 0 {
                    assert!(collects() == before);
                } else if n <= 4 {
                    // one next_u32: pending half is handed out, else a fresh low half
                    if owed {
                        assert!(collects() == before);
                        let w = ((pool >> 32) as u32).to_le_bytes();
                        let j: usize = kani::any();
                        if j < n {
                            assert!(buf[j] == w[j]);
                        }
                        owed = false;
                    } else {
                        assert!(collects() == before + 1);
                        let w = (last() as u32).to_le_bytes();
                        let j: usize = kani::any();
                        if j < n {
                            assert!(buf[j] == w[j]);
                        }
                        owed = true;
                    }
                } else if n <= 8 {
                    assert!(collects() == before + 1);
                    let w = last().to_le_bytes();
                    let j: usize = kani::any();
                    if j < n {
                        assert!(buf[j] == w[j]);
                    }
                    owed = false;
                } else {
                    // 9 bytes: one whole collection, then a fresh next_u32
                    assert!(collects() == before + 2);
                    assert!(buf[8] == (last() as u32).to_le_bytes()[0]);
                    owed = true;
                }
            } else {
                // clone and continue on the clone: the clone owes nothing
                let c = r.clone();
                assert!(c.verif_pool() == pool);
                assert!(!c.verif_state().2);
                // the original still owes what it owed
                assert!(r.verif_state().2 == owed);
                r = c;
                owed = false;
            }
            assert!(r.verif_state().2 == owed);
            k += 1;
        }
        kani::cover!(owed, "ends owing a half");
        kani::cover!(collects() == 0, "no collection at all");
    }

    #[kani::proof]
    #[kani::unwind(12)]
    #[kani::stub(rand_jitter::JitterRng::gen_entropy, gen_stub)]
    pub fn ops1() {
        ops::<1>()
    }
    #[kani::proof]
    #[kani::unwind(12)]
    #[kani::stub(rand_jitter::JitterRng::gen_entropy, gen_stub)]
    pub fn ops2() {
        ops::<2>()
    }
    #[kani::proof]
    #[kani::unwind(12)]
    #[kani::stub(rand_jitter::JitterRng::gen_entropy, gen_stub)]
    pub fn ops3() {
        ops::<3>()
    }

    /// The statement's explicit instance: two consecutive next_u32 = low then
    /// high half of the value one next_u64 returns in their place.
    #[kani::proof]
    #[kani::stub(rand_jitter::JitterRng::gen_entropy, gen_stub)]
    pub fn two_halves() {
        let mut r = arbitrary_rng();
        let idx = r.verif_state().1;
        r.verif_set_state(idx, false);
        let lo = r.next_u32();
        let c1 = collects();
        let hi = r.next_u32();
        assert!(collects() == c1 && c1 == 1);
        assert!(((hi as u64) << 32 | lo as u64) == last());
        // a third call collects afresh
        let _ = r.next_u32();
        assert!(collects() == 2);
    }
}
include!("jit_gen.rs");
