//! C06 - jump()/long_jump(): the solver part ("shape"). The generator's own
//! next_u32/next_u64 is replaced by a stub that overwrites the state with an
//! arbitrary value (so the visited states v_0 = s, v_1, ... are completely
//! arbitrary) and XORs the pre-call state into a shadow accumulator when bit i
//! of the polynomial J is set. J is derived per run from the real code by the
//! native helper + exact algebra (an untrusted hint; a wrong J fails here).
//! Proved for all s and all v_i:  calls == n  and  jump(s) = XOR_{i in J} v_i,
//! hence jump(s) = J(T)(s) for the real transition T. That J(T) = T^(2^(n/2))
//! is the exact certificate (vlib/gf2.py).
use rand_core::RngCore;

include!(concat!(env!("VERIF_GEN_DIR"), "/jump_polys.rs"));

macro_rules! c06_type {
    ($m:ident, $T:ty, $W:ident, $N:expr, $wbits:expr, $nextfn:ident, $R:ty, $J:expr, $L:expr) => {
        pub mod $m {
            use super::*;
            const NBITS: usize = $N * $wbits;
            static mut CALLS: usize = 0;
            static mut SHADOW: [$W; $N] = [0; $N];
            static mut POLY: [$W; $N] = [0; $N];

            #[allow(static_mut_refs)]
            fn next_stub(g: &mut $T) -> $R {
                unsafe {
                    let cur = g.verif_state();
                    if CALLS < NBITS {
                        let word = POLY[CALLS / $wbits];
                        if (word >> (CALLS % $wbits)) & 1 == 1 {
                            let mut i = 0;
                            while i < $N {
                                SHADOW[i] ^= cur[i];
                                i += 1;
                            }
                        }
                    }
                    CALLS += 1;
                    let nxt: [$W; $N] = kani::any();
                    *g = <$T>::verif_from_state(nxt);
                    0
                }
            }

            #[allow(static_mut_refs)]
            fn body(long: bool) {
                unsafe {
                    POLY = if long { $L } else { $J };
                }
                let s: [$W; $N] = kani::any();
                let mut g = <$T>::verif_from_state(s);
                if long {
                    g.long_jump();
                } else {
                    g.jump();
                }
                assert!(unsafe { CALLS } == NBITS);
                let st = g.verif_state();
                let mut i = 0;
                while i < $N {
                    assert!(st[i] == unsafe { SHADOW[i] });
                    i += 1;
                }
                kani::cover!(st[0] != s[0], "state moved");
            }

            #[kani::proof]
            #[kani::unwind(66)]
            #[kani::stub(<$T as rand_core::RngCore>::$nextfn, next_stub)]
            pub fn jump() {
                body(false)
            }

            #[kani::proof]
            #[kani::unwind(66)]
            #[kani::stub(<$T as rand_core::RngCore>::$nextfn, next_stub)]
            pub fn long_jump() {
                body(true)
            }
        }
    };
}
c06_type!(xoroshiro128plus, rand_xoshiro::Xoroshiro128Plus, u64, 2, 64, next_u64, u64, J_XOROSHIRO128PLUS, L_XOROSHIRO128PLUS);
c06_type!(xoroshiro128plusplus, rand_xoshiro::Xoroshiro128PlusPlus, u64, 2, 64, next_u64, u64, J_XOROSHIRO128PLUSPLUS, L_XOROSHIRO128PLUSPLUS);
c06_type!(xoroshiro128starstar, rand_xoshiro::Xoroshiro128StarStar, u64, 2, 64, next_u64, u64, J_XOROSHIRO128STARSTAR, L_XOROSHIRO128STARSTAR);
c06_type!(xoshiro128plus, rand_xoshiro::Xoshiro128Plus, u32, 4, 32, next_u32, u32, J_XOSHIRO128PLUS, L_XOSHIRO128PLUS);
c06_type!(xoshiro128plusplus, rand_xoshiro::Xoshiro128PlusPlus, u32, 4, 32, next_u32, u32, J_XOSHIRO128PLUSPLUS, L_XOSHIRO128PLUSPLUS);
c06_type!(xoshiro128starstar, rand_xoshiro::Xoshiro128StarStar, u32, 4, 32, next_u32, u32, J_XOSHIRO128STARSTAR, L_XOSHIRO128STARSTAR);
c06_type!(xoshiro256plus, rand_xoshiro::Xoshiro256Plus, u64, 4, 64, next_u64, u64, J_XOSHIRO256PLUS, L_XOSHIRO256PLUS);
c06_type!(xoshiro256plusplus, rand_xoshiro::Xoshiro256PlusPlus, u64, 4, 64, next_u64, u64, J_XOSHIRO256PLUSPLUS, L_XOSHIRO256PLUSPLUS);
c06_type!(xoshiro256starstar, rand_xoshiro::Xoshiro256StarStar, u64, 4, 64, next_u64, u64, J_XOSHIRO256STARSTAR, L_XOSHIRO256STARSTAR);
c06_type!(xoshiro512plus, rand_xoshiro::Xoshiro512Plus, u64, 8, 64, next_u64, u64, J_XOSHIRO512PLUS, L_XOSHIRO512PLUS);
c06_type!(xoshiro512plusplus, rand_xoshiro::Xoshiro512PlusPlus, u64, 8, 64, next_u64, u64, J_XOSHIRO512PLUSPLUS, L_XOSHIRO512PLUSPLUS);
c06_type!(xoshiro512starstar, rand_xoshiro::Xoshiro512StarStar, u64, 8, 64, next_u64, u64, J_XOSHIRO512STARSTAR, L_XOSHIRO512STARSTAR);
