//! Reference models of ISAAC and ISAAC-64, transcribed from Bob Jenkins'
//! public-domain readable.c / rand.c (ISAAC) and isaac64.c, in their shape:
//! state (mm[256], aa, bb, cc), results randrsl[256], `isaac()` and
//! `randinit(flag)`.

pub struct Isaac {
    pub mm: [u32; 256],
    pub aa: u32,
    pub bb: u32,
    pub cc: u32,
    pub randrsl: [u32; 256],
}

/// The four `aa` mixing functions of ISAAC, by i mod 4.
pub fn mix32(i: usize, aa: u32) -> u32 {
    match i % 4 {
        0 => aa ^ (aa << 13),
        1 => aa ^ (aa >> 6),
        2 => aa ^ (aa << 2),
        _ => aa ^ (aa >> 16),
    }
}

impl Isaac {
    /// readable.c: isaac()
    pub fn isaac(&mut self) {
        self.cc = self.cc.overflowing_add(1).0;
        self.bb = self.bb.overflowing_add(self.cc).0;
        let mut i = 0;
        while i < 256 {
            let x = self.mm[i];
            self.aa = mix32(i, self.aa);
            self.aa = self.mm[(i + 128) % 256].overflowing_add(self.aa).0;
            let y = self.mm[((x >> 2) % 256) as usize].overflowing_add(self.aa).0.overflowing_add(self.bb).0;
            self.mm[i] = y;
            self.bb = self.mm[((y >> 10) % 256) as usize].overflowing_add(x).0;
            self.randrsl[i] = self.bb;
            i += 1;
        }
    }
}

/// Shift amounts of ISAAC's `mix(a..h)`: line j is
/// `s[j] ^= s[j+1] (<< or >>) k; s[j+3] += s[j]; s[j+1] += s[j+2]` (indices mod 8).
pub const MIX32_SHIFT: [(bool, u32); 8] =
    [(true, 11), (false, 2), (true, 8), (false, 16), (true, 10), (false, 4), (true, 8), (false, 9)];

pub fn mix32_state(s: &mut [u32; 8]) {
    let mut j = 0;
    while j < 8 {
        let (left, k) = MIX32_SHIFT[j];
        let v = s[(j + 1) % 8];
        s[j] ^= if left { v << k } else { v >> k };
        s[(j + 3) % 8] = s[(j + 3) % 8].overflowing_add(s[j]).0;
        s[(j + 1) % 8] = s[(j + 1) % 8].overflowing_add(s[(j + 2) % 8]).0;
        j += 1;
    }
}

/// The eight words a..h after initialising them with the golden ratio and
/// mixing four times (start of randinit()).
pub fn golden32() -> [u32; 8] {
    let mut s = [0x9e3779b9u32; 8];
    let mut i = 0;
    while i < 4 {
        mix32_state(&mut s);
        i += 1;
    }
    s
}

/// randinit(flag = TRUE) on the seed array `r` (written into randrsl by the
/// caller in Jenkins' code), with `passes` passes (2 = Jenkins' randinit; 1 =
/// its first pass only). Leaves aa = bb = cc = 0; does not run isaac().
pub fn randinit32(r: &[u32; 256], passes: usize) -> [u32; 256] {
    let mut s = golden32();
    let mut m = *r;
    let mut p = 0;
    while p < passes {
        let mut i = 0;
        while i < 256 {
            let mut j = 0;
            while j < 8 {
                s[j] = s[j].overflowing_add(m[i + j]).0;
                j += 1;
            }
            mix32_state(&mut s);
            let mut j = 0;
            while j < 8 {
                m[i + j] = s[j];
                j += 1;
            }
            i += 8;
        }
        p += 1;
    }
    m
}

// ------------------------------------------------------------------ ISAAC-64

pub struct Isaac64 {
    pub mm: [u64; 256],
    pub aa: u64,
    pub bb: u64,
    pub cc: u64,
    pub randrsl: [u64; 256],
}

pub fn mix64(i: usize, aa: u64) -> u64 {
    match i % 4 {
        0 => !(aa ^ (aa << 21)),
        1 => aa ^ (aa >> 5),
        2 => aa ^ (aa << 12),
        _ => aa ^ (aa >> 33),
    }
}

impl Isaac64 {
    /// isaac64.c: isaac64()
    pub fn isaac64(&mut self) {
        self.cc = self.cc.overflowing_add(1).0;
        self.bb = self.bb.overflowing_add(self.cc).0;
        let mut i = 0;
        while i < 256 {
            let x = self.mm[i];
            self.aa = mix64(i, self.aa).overflowing_add(self.mm[(i + 128) % 256]).0;
            let y = self.mm[((x >> 3) % 256) as usize].overflowing_add(self.aa).0.overflowing_add(self.bb).0;
            self.mm[i] = y;
            self.bb = self.mm[((y >> 11) % 256) as usize].overflowing_add(x).0;
            self.randrsl[i] = self.bb;
            i += 1;
        }
    }
}

/// Shift amounts of ISAAC-64's mix: line j is
/// `s[j] -= s[j+4]; s[j+5] ^= s[j+7] (>> or <<) k; s[j+7] += s[j]` (indices mod 8).
pub const MIX64_SHIFT: [(bool, u32); 8] =
    [(false, 9), (true, 9), (false, 23), (true, 15), (false, 14), (true, 20), (false, 17), (true, 14)];

pub fn mix64_state(s: &mut [u64; 8]) {
    let mut j = 0;
    while j < 8 {
        let (left, k) = MIX64_SHIFT[j];
        s[j] = s[j].overflowing_sub(s[(j + 4) % 8]).0;
        let v = s[(j + 7) % 8];
        s[(j + 5) % 8] ^= if left { v << k } else { v >> k };
        s[(j + 7) % 8] = s[(j + 7) % 8].overflowing_add(s[j]).0;
        j += 1;
    }
}

pub fn golden64() -> [u64; 8] {
    let mut s = [0x9e3779b97f4a7c13u64; 8];
    let mut i = 0;
    while i < 4 {
        mix64_state(&mut s);
        i += 1;
    }
    s
}

pub fn randinit64(r: &[u64; 256], passes: usize) -> [u64; 256] {
    let mut s = golden64();
    let mut m = *r;
    let mut p = 0;
    while p < passes {
        let mut i = 0;
        while i < 256 {
            let mut j = 0;
            while j < 8 {
                s[j] = s[j].overflowing_add(m[i + j]).0;
                j += 1;
            }
            mix64_state(&mut s);
            let mut j = 0;
            while j < 8 {
                m[i + j] = s[j];
                j += 1;
            }
            i += 8;
        }
        p += 1;
    }
    m
}
