//! Reference model of the Jitterentropy 2.1.0 collection procedure as
//! documented in rand_jitter (and in Stephan Mueller's jitterentropy-base.c),
//! written in specification shape.

/// Tap positions (bit numbers) of the Fibonacci LFSR
/// x^64 + x^61 + x^56 + x^31 + x^28 + x^23 + 1 ("polynomial values minus one").
pub const TAPS: [u32; 6] = [63, 60, 55, 30, 27, 22];

/// Fold the 64 bits of `time` (LSB first) into `pool` through the LFSR.
pub fn lfsr(mut pool: u64, time: u64) -> u64 {
    let mut i = 0;
    while i < 64 {
        let tbit = (time >> i) & 1;
        // feedback = time bit + current LSB + the six taps
        let mut fb = tbit ^ (pool & 1);
        let mut k = 0;
        while k < 6 {
            fb ^= (pool >> TAPS[k]) & 1;
            k += 1;
        }
        // the new bit takes the LSB's place and the register rotates by one
        pool = ((pool & !1u64) | fb).rotate_left(1);
        i += 1;
    }
    pool
}

/// The documented ("normal code") branching form of the final stir.
pub fn stir(pool: u64) -> u64 {
    const CONSTANT: u64 = 0x67452301efcdab89;
    let mut mixer: u64 = 0x98badcfe10325476;
    let mut i = 0;
    while i < 64 {
        if (pool >> i) & 1 == 1 {
            mixer ^= CONSTANT;
        }
        mixer = mixer.rotate_left(1);
        i += 1;
    }
    pool ^ mixer
}

/// Stuck test on 32-bit deltas (differences modulo 2^32).
/// Returns (stuck, new last_delta, new last_delta2).
pub fn stuck(last_delta: i32, last_delta2: i32, delta: i32) -> (bool, i32, i32) {
    let d2 = last_delta.wrapping_sub(delta);
    let d3 = d2.wrapping_sub(last_delta2);
    (delta == 0 || d2 == 0 || d3 == 0, delta, d2)
}

/// The random loop count: the 64-bit value folded to `bits` bits by XOR.
pub fn fold(mut v: u64, bits: u32) -> u32 {
    let mask = (1u64 << bits) - 1;
    let mut r = 0u64;
    let folds = (64 + bits - 1) / bits;
    let mut i = 0;
    while i < folds {
        r ^= v & mask;
        v >>= bits;
        i += 1;
    }
    r as u32
}

/// Number of significant bits.
pub fn bitlen(x: u64) -> u32 {
    64 - x.leading_zeros()
}
