//! C17 - Debug output of state-hiding generators never depends on seed or state.
//! Two arbitrary states with the same public read position are formatted by
//! the real Debug::fmt (through core::fmt::write) into a heap-free sink; the
//! two texts must be identical, and no state word may flow into them.
use core::fmt::{self, Write};
use rand_core::RngCore;

pub const CAP: usize = 160;
pub struct Sink {
    pub buf: [u8; CAP],
    pub len: usize,
    pub overflow: bool,
}
impl Sink {
    pub fn new() -> Self {
        Sink { buf: [0; CAP], len: 0, overflow: false }
    }
}
impl fmt::Write for Sink {
    fn write_str(&mut self, s: &str) -> fmt::Result {
        let b = s.as_bytes();
        let mut i = 0;
        while i < b.len() {
            if self.len < CAP {
                self.buf[self.len] = b[i];
                self.len += 1;
            } else {
                self.overflow = true;
            }
            i += 1;
        }
        Ok(())
    }
}

pub fn render<T: fmt::Debug>(x: &T, alt: bool) -> Sink {
    let mut s = Sink::new();
    let r = if alt { write!(s, "{:#?}", x) } else { write!(s, "{:?}", x) };
    assert!(r.is_ok());
    s
}

pub fn same(a: &Sink, b: &Sink, min_len: usize) {
    assert!(!a.overflow && !b.overflow);
    assert!(a.len == b.len);
    assert!(a.len >= min_len);
    let k: usize = kani::any();
    if k < a.len {
        assert!(a.buf[k] == b.buf[k]);
    }
}

macro_rules! c17_pair {
    ($name:ident, $alt:expr, $min:expr, $unwind:expr, $mk:expr) => {
        #[kani::proof]
        #[kani::unwind($unwind)]
        pub fn $name() {
            let a = $mk;
            let b = $mk;
            let sa = render(&a, $alt);
            let sb = render(&b, $alt);
            same(&sa, &sb, $min);
        }
    };
}

fn xs() -> rand_xorshift::XorShiftRng {
    rand_xorshift::XorShiftRng::verif_from_state(kani::any())
}
c17_pair!(xorshift_plain, false, 11, 170, xs());
c17_pair!(xorshift_alt, true, 11, 170, xs());

fn hc_core() -> rand_hc::Hc128Core {
    let mut c = rand_hc::Hc128Core::verif_zeroed();
    // a few arbitrary table words and an arbitrary counter (Debug must not read any)
    let k: usize = kani::any();
    kani::assume(k < 1024);
    c.verif_t_mut()[k] = kani::any();
    c.verif_t_mut()[0] = kani::any();
    c.verif_set_counter(kani::any());
    c
}
c17_pair!(hc_core_plain, false, 12, 170, hc_core());
c17_pair!(hc_core_alt, true, 12, 170, hc_core());

/// Wrapper at a fixed public read position (fresh buffer, index 16) over two
/// arbitrary cores.
fn hc_rng() -> rand_hc::Hc128Rng {
    rand_hc::Hc128Rng::verif_from_core(hc_core())
}
c17_pair!(hc_rng_plain, false, 20, 170, hc_rng());

fn jit() -> crate::jit::Rng {
    crate::jit::arbitrary_rng()
}
c17_pair!(jitter_plain, false, 12, 170, jit());
c17_pair!(jitter_alt, true, 12, 170, jit());

fn isaac_core() -> rand_isaac::isaac::IsaacCore {
    let mut c = rand_isaac::isaac::IsaacCore::verif_zeroed();
    let k: usize = kani::any();
    kani::assume(k < 256);
    c.verif_set_mem(k, kani::any());
    c.verif_set_abc(kani::any(), kani::any(), kani::any());
    c
}
c17_pair!(isaac_core_plain, false, 12, 170, isaac_core());
c17_pair!(isaac_core_alt, true, 12, 170, isaac_core());
fn isaac_rng() -> rand_isaac::IsaacRng {
    rand_isaac::IsaacRng::verif_from_core(isaac_core())
}
c17_pair!(isaac_rng_plain, false, 20, 260, isaac_rng());

fn isaac64_core() -> rand_isaac::isaac64::Isaac64Core {
    let mut c = rand_isaac::isaac64::Isaac64Core::verif_zeroed();
    let k: usize = kani::any();
    kani::assume(k < 256);
    c.verif_set_mem(k, kani::any());
    c.verif_set_abc(kani::any(), kani::any(), kani::any());
    c
}
c17_pair!(isaac64_core_plain, false, 14, 170, isaac64_core());
c17_pair!(isaac64_core_alt, true, 14, 170, isaac64_core());
fn isaac64_rng() -> rand_isaac::Isaac64Rng {
    rand_isaac::Isaac64Rng::verif_from_core(isaac64_core())
}
c17_pair!(isaac64_rng_plain, false, 20, 260, isaac64_rng());

// Pretty form ({:#?}) of the three BlockRng wrapper types: the real derived
// Debug of the wrapper and BlockRng's Debug run with the core's Debug::fmt
// replaced by a recording stub that writes a fixed token, so no state can flow
// into the formatter except through that call (the core's own pretty form has
// its own harness above); the other fields passed are result_len and index,
// both part of the public read position.
macro_rules! c17_wrapper_alt {
    ($name:ident, $core:ty, $mk:expr, $unwind:expr) => {
        pub mod $name {
            use super::*;
            fn core_fmt_stub(_c: &$core, f: &mut fmt::Formatter<'_>) -> fmt::Result {
                f.write_str("CORE")
            }
            #[kani::proof]
            #[kani::unwind($unwind)]
            #[kani::stub(<$core as core::fmt::Debug>::fmt, core_fmt_stub)]
            pub fn h() {
                let a = $mk;
                let b = $mk;
                let sa = render(&a, true);
                let sb = render(&b, true);
                same(&sa, &sb, 30);
            }
        }
    };
}
c17_wrapper_alt!(hc_rng_alt, rand_hc::Hc128Core, hc_rng(), 170);
c17_wrapper_alt!(isaac_rng_alt, rand_isaac::isaac::IsaacCore, isaac_rng(), 260);
c17_wrapper_alt!(isaac64_rng_alt, rand_isaac::isaac64::Isaac64Core, isaac64_rng(), 260);
