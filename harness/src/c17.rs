//! C17 - Debug output of state-hiding generators never depends on seed or state.
//! Two arbitrary states with the same public read position are formatted by
//! the real Debug::fmt (through core::fmt::write) into a heap-free sink; the
//! two texts must be identical, and no state word may flow into them.
use core::fmt::{self, Write};
use rand_core::RngCore;

pub const CAP: usize = 160;
pub struct Sink {
    pub buf: [u8; CAP],
    pub len: usize,
    pub overflow: bool,
}
impl Sink {
    pub fn new() -> Self {
        Sink { buf: [0; CAP], len: 0, overflow: false }
    }
}
impl fmt::Write for Sink {
    fn write_str(&mut self, s: &str) -> fmt::Result {
        let b = s.as_bytes();
        let mut i = 0;
        while i < b.len() {
            if self.len < CAP {
                self.buf[self.len] = b[i];
                self.len += 1;
            } else {
                self.overflow = true;
            }
            i += 1;
        }
        Ok(())
    }
}

pub fn render<T: fmt::Debug>(x: &T, alt: bool) -> Sink {
    let mut s = Sink::new();
    let r = if alt { write!(s, "{:#?}", x) } else { write!(s, "{:?}", x) };
    assert!(r.is_ok());
    s
}

pub fn same(a: &Sink, b: &Sink, min_len: usize) {
    assert!(!a.overflow && !b.overflow);
    assert!(a.len == b.len);
    // vacuity guard only (something was written); not a property of the code
    let _ = min_len;
    kani::cover!(a.len > 0 || min_len == 0, "some text written");
    let k: usize = kani::any();
    if k < a.len {
        assert!(a.buf[k] == b.buf[k]);
    }
}

// Integer formatting is replaced by recording stubs in the symbolic pair
// harnesses: core's integer-to-text code is very heavy for CBMC on symbolic
// values (a leaking Debug impl made the harness time out instead of failing),
// and for this property only WHICH values reach a formatter matters. Each stub
// folds the value it is asked to print into FMT_LOG and writes a fixed token;
// the two renderings must then agree in text AND in the logged values.
pub static mut FMT_LOG: u64 = 0;
pub static mut FMT_CALLS: usize = 0;
#[allow(static_mut_refs)]
fn fmt_rec(v: u64, f: &mut fmt::Formatter<'_>) -> fmt::Result {
    unsafe {
        FMT_LOG = FMT_LOG.rotate_left(7) ^ v;
        FMT_CALLS += 1;
    }
    f.write_str("#")
}
macro_rules! fmt_stub_fns {
    ($($name:ident: $t:ty),*) => { $(pub fn $name(v: &$t, f: &mut fmt::Formatter<'_>) -> fmt::Result { fmt_rec(*v as u64, f) })* };
}
fmt_stub_fns!(st_u8: u8, st_u16: u16, st_u32: u32, st_u64: u64, st_usize: usize, st_i32: i32, st_i64: i64);

// `DebugStruct::field` is replaced as well: in the alternate ({:#?}) mode the
// real one goes through PadAdapter, whose byte scanning did not fit (20 GB);
// the stub renders the field's name and its value (in the plain mode, through
// the value's own Debug impl) into FIELD_LOG and leaves the builder untouched.
// What is compared for the pretty form is therefore: the struct name written
// by `debug_struct`, and name + plain rendering of every field handed to the
// builder - the layout code of core is not part of the claim.
pub static mut FIELD_LOG: Sink = Sink { buf: [0; CAP], len: 0, overflow: false };
#[allow(static_mut_refs)]
pub fn field_stub<'a: 'a, 'b: 'b, 'c>(s: &'c mut fmt::DebugStruct<'a, 'b>, name: &str, value: &dyn fmt::Debug) -> &'c mut fmt::DebugStruct<'a, 'b> {
    unsafe {
        let _ = FIELD_LOG.write_str(name);
        let _ = write!(FIELD_LOG, "={:?};", value);
    }
    s
}

/// Same for tuple structs (`DebugTuple::field`), used by the derived Debug of
/// the newtype wrappers.
#[allow(static_mut_refs)]
pub fn tfield_stub<'a: 'a, 'b: 'b, 'c>(s: &'c mut fmt::DebugTuple<'a, 'b>, value: &dyn fmt::Debug) -> &'c mut fmt::DebugTuple<'a, 'b> {
    unsafe {
        let _ = write!(FIELD_LOG, "({:?})", value);
    }
    s
}

#[allow(static_mut_refs)]
pub fn render_logged<T: fmt::Debug>(x: &T, alt: bool) -> (Sink, u64, usize, Sink) {
    unsafe {
        FMT_LOG = 0;
        FMT_CALLS = 0;
        FIELD_LOG.len = 0;
        FIELD_LOG.overflow = false;
    }
    let s = render(x, alt);
    unsafe {
        let mut fl = Sink::new();
        let mut i = 0;
        while i < FIELD_LOG.len {
            fl.buf[i] = FIELD_LOG.buf[i];
            i += 1;
        }
        fl.len = FIELD_LOG.len;
        fl.overflow = FIELD_LOG.overflow;
        (s, FMT_LOG, FMT_CALLS, fl)
    }
}

macro_rules! c17_pair {
    ($name:ident, $alt:expr, $min:expr, $unwind:expr, $mk:expr) => {
        #[kani::proof]
        #[kani::unwind($unwind)]
        #[kani::stub(<u8 as core::fmt::Display>::fmt, st_u8)]
        #[kani::stub(<u16 as core::fmt::Display>::fmt, st_u16)]
        #[kani::stub(<u32 as core::fmt::Display>::fmt, st_u32)]
        #[kani::stub(<u64 as core::fmt::Display>::fmt, st_u64)]
        #[kani::stub(<usize as core::fmt::Display>::fmt, st_usize)]
        #[kani::stub(<i32 as core::fmt::Display>::fmt, st_i32)]
        #[kani::stub(<i64 as core::fmt::Display>::fmt, st_i64)]
        #[kani::stub(<u8 as core::fmt::Debug>::fmt, st_u8)]
        #[kani::stub(<u16 as core::fmt::Debug>::fmt, st_u16)]
        #[kani::stub(<u32 as core::fmt::Debug>::fmt, st_u32)]
        #[kani::stub(<u64 as core::fmt::Debug>::fmt, st_u64)]
        #[kani::stub(<usize as core::fmt::Debug>::fmt, st_usize)]
        #[kani::stub(<i32 as core::fmt::Debug>::fmt, st_i32)]
        #[kani::stub(<i64 as core::fmt::Debug>::fmt, st_i64)]
        #[kani::stub(<u8 as core::fmt::LowerHex>::fmt, st_u8)]
        #[kani::stub(<u16 as core::fmt::LowerHex>::fmt, st_u16)]
        #[kani::stub(<u32 as core::fmt::LowerHex>::fmt, st_u32)]
        #[kani::stub(<u64 as core::fmt::LowerHex>::fmt, st_u64)]
        #[kani::stub(<usize as core::fmt::LowerHex>::fmt, st_usize)]
        #[kani::stub(<u8 as core::fmt::UpperHex>::fmt, st_u8)]
        #[kani::stub(<u16 as core::fmt::UpperHex>::fmt, st_u16)]
        #[kani::stub(<u32 as core::fmt::UpperHex>::fmt, st_u32)]
        #[kani::stub(<u64 as core::fmt::UpperHex>::fmt, st_u64)]
        #[kani::stub(<usize as core::fmt::UpperHex>::fmt, st_usize)]
        #[kani::stub(core::fmt::DebugStruct::field, field_stub)]
        #[kani::stub(core::fmt::DebugTuple::field, tfield_stub)]
        pub fn $name() {
            let a = $mk;
            let b = $mk;
            let (sa, la, ca, fa) = render_logged(&a, $alt);
            let (sb, lb, cb, fb) = render_logged(&b, $alt);
            same(&sa, &sb, $min);
            // the same values (none, or only the public read position) reach the integer formatters
            assert!(ca == cb && la == lb);
            // the same fields (names and plain renderings) reach the struct builder
            same(&fa, &fb, 0);
        }
    };
}

fn xs() -> rand_xorshift::XorShiftRng {
    rand_xorshift::XorShiftRng::verif_from_state(kani::any())
}
c17_pair!(xorshift_plain, false, 11, 170, xs());
c17_pair!(xorshift_alt, true, 11, 170, xs());

fn hc_core() -> rand_hc::Hc128Core {
    let mut c = rand_hc::Hc128Core::verif_zeroed();
    // a few arbitrary table words and an arbitrary counter (Debug must not read any)
    let k: usize = kani::any();
    kani::assume(k < 1024);
    c.verif_t_mut()[k] = kani::any();
    c.verif_t_mut()[0] = kani::any();
    c.verif_set_counter(kani::any());
    c
}
c17_pair!(hc_core_plain, false, 12, 170, hc_core());
c17_pair!(hc_core_alt, true, 12, 170, hc_core());

/// Wrapper at a fixed public read position (fresh buffer, index 16) over two
/// arbitrary cores.
fn hc_rng() -> rand_hc::Hc128Rng {
    rand_hc::Hc128Rng::verif_from_core(hc_core())
}
c17_pair!(hc_rng_plain, false, 8, 170, hc_rng());

fn jit() -> crate::jit::Rng {
    crate::jit::arbitrary_rng()
}
c17_pair!(jitter_plain, false, 12, 170, jit());
c17_pair!(jitter_alt, true, 12, 170, jit());

fn isaac_core() -> rand_isaac::isaac::IsaacCore {
    let mut c = rand_isaac::isaac::IsaacCore::verif_zeroed();
    let k: usize = kani::any();
    kani::assume(k < 256);
    c.verif_set_mem(k, kani::any());
    c.verif_set_abc(kani::any(), kani::any(), kani::any());
    c
}
c17_pair!(isaac_core_plain, false, 12, 170, isaac_core());
c17_pair!(isaac_core_alt, true, 12, 170, isaac_core());
fn isaac_rng() -> rand_isaac::IsaacRng {
    rand_isaac::IsaacRng::verif_from_core(isaac_core())
}
c17_pair!(isaac_rng_plain, false, 8, 260, isaac_rng());

fn isaac64_core() -> rand_isaac::isaac64::Isaac64Core {
    let mut c = rand_isaac::isaac64::Isaac64Core::verif_zeroed();
    let k: usize = kani::any();
    kani::assume(k < 256);
    c.verif_set_mem(k, kani::any());
    c.verif_set_abc(kani::any(), kani::any(), kani::any());
    c
}
c17_pair!(isaac64_core_plain, false, 14, 170, isaac64_core());
c17_pair!(isaac64_core_alt, true, 14, 170, isaac64_core());
fn isaac64_rng() -> rand_isaac::Isaac64Rng {
    rand_isaac::Isaac64Rng::verif_from_core(isaac64_core())
}
c17_pair!(isaac64_rng_plain, false, 8, 260, isaac64_rng());

// Pretty form of the three BlockRng wrapper types (fields go through the
// stubbed builder, see above).
c17_pair!(hc_rng_alt, true, 8, 170, hc_rng());
c17_pair!(isaac_rng_alt, true, 8, 260, isaac_rng());
c17_pair!(isaac64_rng_alt, true, 8, 260, isaac64_rng());

// ---------------------------------------------------------------------------
// Concrete-pair companions: the same comparison for two fixed, very different
// states (all-zero vs a pattern with every word non-zero, after one refill
// for the buffered types). Everything constant-folds, so these are cheap even
// where the symbolic pair is not (number formatting of a symbolic word); core
// types, XorShiftRng and JitterRng only (the wrappers' pretty form does not fit
// even with concrete states). They do not quantify over states, they
// are an additional detector for leaks whose formatting code is too heavy for
// the symbolic harness.
pub mod concrete {
    use super::*;

    fn check<T: fmt::Debug>(a: &T, b: &T, min: usize) {
        for alt in [false, true] {
            let sa = render(a, alt);
            let sb = render(b, alt);
            assert!(!sa.overflow && !sb.overflow);
            assert!(sa.len == sb.len && sa.len >= min);
            let mut k = 0;
            while k < sa.len {
                assert!(sa.buf[k] == sb.buf[k]);
                k += 1;
            }
        }
    }

    #[kani::proof]
    #[kani::unwind(170)]
    pub fn xorshift() {
        let a = rand_xorshift::XorShiftRng::verif_from_state([1, 2, 3, 4]);
        let b = rand_xorshift::XorShiftRng::verif_from_state([0xdead_beef, 0x8000_0001, 0xffff_ffff, 0x1234_5678]);
        check(&a, &b, 11);
    }

    fn hc(fill: u32, counter: usize) -> rand_hc::Hc128Core {
        let mut c = rand_hc::Hc128Core::verif_zeroed();
        let mut i = 0;
        while i < 1024 {
            c.verif_t_mut()[i] = fill.wrapping_mul(i as u32 + 1);
            i += 1;
        }
        c.verif_set_counter(counter);
        c
    }
    #[kani::proof]
    #[kani::unwind(1030)]
    pub fn hc_core_and_rng() {
        let (a, b) = (hc(0, 0), hc(0x9e37_79b9, 1008));
        check(&a, &b, 12);
    }

    macro_rules! isaac_pair {
        ($name:ident, $Core:ty, $Rng:ty, $W:ty) => {
            #[kani::proof]
            #[kani::unwind(260)]
            pub fn $name() {
                let a = <$Core>::verif_zeroed();
                let mut b = <$Core>::verif_zeroed();
                let mut i = 0;
                while i < 256 {
                    b.verif_set_mem(i, (0x9e37_79b9 as $W).wrapping_mul(i as $W + 1));
                    i += 1;
                }
                b.verif_set_abc(0x1234_5678, 0x0bad_5eed, 77);
                check(&a, &b, 12);
            }
        };
    }
    isaac_pair!(isaac, rand_isaac::isaac::IsaacCore, rand_isaac::IsaacRng, u32);
    isaac_pair!(isaac64, rand_isaac::isaac64::Isaac64Core, rand_isaac::Isaac64Rng, u64);

    #[kani::proof]
    #[kani::unwind(170)]
    pub fn jitter() {
        let mut a = crate::jit::new_rng();
        let mut b = crate::jit::new_rng();
        b.verif_set_pool(0xdead_beef_0bad_5eed);
        b.verif_set_state(1999, true);
        b.set_rounds(7);
        a.set_rounds(64);
        check(&a, &b, 12);
    }
}
