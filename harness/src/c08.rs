//! C08 - no seeding path yields the all-zero state; zero seeds are remapped as documented.
//! C09 - all seeding routes agree (xoshiro family and XorShiftRng parts).
use crate::src_rng::{Src, SrcError, TrySrc};
use rand_core::{RngCore, SeedableRng};

macro_rules! all_zero {
    ($st:expr, $n:expr) => {{
        let mut z = true;
        let mut i = 0;
        while i < $n {
            z &= $st[i] == 0;
            i += 1;
        }
        z
    }};
}

macro_rules! c08_type {
    ($m:ident, $T:ty, $W:ident, $N:expr, $SB:expr, $native:ident, $refn:path, $seedk:ident, $half:ident, $kind:ident) => {
        pub mod $m {
            use super::*;

            /// from_seed, every seed: never the zero state; non-zero seeds
            /// verbatim (LE words); the zero seed gives seed_from_u64(0).
            #[kani::proof]
            #[kani::unwind(66)]
            pub fn from_seed() {
                let b: [u8; $SB] = kani::any();
                let mut nz = false;
                let mut i = 0;
                while i < $SB {
                    nz |= b[i] != 0;
                    i += 1;
                }
                let g = <$T>::from_seed(mk_seed!($seedk, b));
                let st = g.verif_state();
                assert!(!all_zero!(st, $N));
                if nz {
                    let w = le_words!($W, $N, b);
                    let mut i = 0;
                    while i < $N {
                        assert!(st[i] == w[i]);
                        i += 1;
                    }
                } else {
                    let z = <$T>::seed_from_u64(0).verif_state();
                    let mut i = 0;
                    while i < $N {
                        assert!(st[i] == z[i]);
                        i += 1;
                    }
                }
                kani::cover!(nz, "non-zero seed");
                kani::cover!(!nz, "zero seed");
            }

            /// seed_from_u64, every u64: never the zero state (real multiplier).
            #[kani::proof]
            #[kani::unwind(66)]
            pub fn u64_nonzero() {
                let x: u64 = kani::any();
                let g = <$T>::seed_from_u64(x);
                let st = g.verif_state();
                assert!(!all_zero!(st, $N));
                kani::cover!(x == 0, "x = 0");
            }

            // Recording stub for `from_seed`: logs the seed bytes it is given and
            // returns a generator in an arbitrary marker state.
            static mut FS_CALLS: usize = 0;
            static mut FS_SEED: [u8; $SB] = [0; $SB];
            static mut FS_MARK: [$W; $N] = [0; $N];
            #[allow(static_mut_refs)]
            fn from_seed_stub(seed: <$T as SeedableRng>::Seed) -> $T {
                unsafe {
                    let b: &[u8] = seed.as_ref();
                    let mut i = 0;
                    while i < $SB {
                        FS_SEED[i] = b[i];
                        i += 1;
                    }
                    FS_CALLS += 1;
                    let m: [$W; $N] = kani::any();
                    FS_MARK = m;
                    <$T>::verif_from_state(m)
                }
            }

            /// C09: seed_from_u64(x) = from_seed(first seed-length bytes of the
            /// SplitMix64 stream started at x): `from_seed` is replaced by a
            /// recording stub (its own behaviour is `from_seed` above), the
            /// recorded seed bytes must be the reference stream's bytes, it is
            /// called exactly once and its result is returned. Multiplications
            /// compared as an uninterpreted function.
            #[kani::proof]
            #[kani::unwind(66)]
            #[kani::stub(u64::wrapping_mul, crate::c01::uf::umul64)]
            #[kani::stub(<$T as rand_core::SeedableRng>::from_seed, from_seed_stub)]
            pub fn u64_route_uf() {
                let x: u64 = kani::any();
                u64_route_body(x);
            }
            /// Twin of `u64_route_uf` with the real multiplier.
            #[kani::proof]
            #[kani::unwind(66)]
            #[kani::stub(<$T as rand_core::SeedableRng>::from_seed, from_seed_stub)]
            pub fn u64_route_real() {
                let x: u64 = kani::any();
                u64_route_body(x);
            }
            #[allow(static_mut_refs)]
            fn u64_route_body(x: u64) {
                let g = <$T>::seed_from_u64(x);
                let mut sx = x;
                let mut i = 0;
                while i < $SB {
                    let (nx, o) = crate::ref_xoshiro::splitmix64(sx);
                    sx = nx;
                    let w = o.to_le_bytes();
                    let mut j = 0;
                    while j < 8 {
                        assert!(unsafe { FS_SEED[i + j] } == w[j]);
                        j += 1;
                    }
                    i += 8;
                }
                assert!(unsafe { FS_CALLS } == 1);
                let sg = g.verif_state();
                let mut i = 0;
                while i < $N {
                    assert!(sg[i] == unsafe { FS_MARK[i] });
                    i += 1;
                }
                kani::cover!(x > (1 << 63), "large x");
            }

            /// from_rng, every source byte stream: built from exactly the
            /// bytes delivered (= from_seed of them, so a zero block is
            /// remapped), one call, seed-length bytes consumed, never zero.
            #[kani::proof]
            #[kani::unwind(66)]
            pub fn from_rng() {
                let mut src = Src::new();
                let g = <$T>::from_rng(&mut src);
                assert!(src.calls == 1 && src.bytes == $SB);
                let mut b = [0u8; $SB];
                let mut nz = false;
                let mut i = 0;
                while i < $SB {
                    b[i] = src.log[i];
                    nz |= b[i] != 0;
                    i += 1;
                }
                let st = g.verif_state();
                assert!(!all_zero!(st, $N));
                let r = <$T>::from_seed(mk_seed!($seedk, b)).verif_state();
                let mut i = 0;
                while i < $N {
                    assert!(st[i] == r[i]);
                    i += 1;
                }
                kani::cover!(!nz, "all-zero block from the source");
                kani::cover!(nz, "non-zero block");
            }

            /// try_from_rng: same generator as from_rng when the source does
            /// not fail; the source's own error, never a generator, otherwise.
            #[kani::proof]
            #[kani::unwind(66)]
            pub fn try_from_rng() {
                let fail_at: usize = kani::any();
                let err: u32 = kani::any();
                let mut src = TrySrc::new(fail_at, err);
                let res = <$T>::try_from_rng(&mut src);
                match res {
                    Ok(g) => {
                        assert!(fail_at >= 1);
                        assert!(src.inner.calls == 1 && src.inner.bytes == $SB);
                        let mut b = [0u8; $SB];
                        let mut i = 0;
                        while i < $SB {
                            b[i] = src.inner.log[i];
                            i += 1;
                        }
                        let st = g.verif_state();
                        assert!(!all_zero!(st, $N));
                        let r = <$T>::from_seed(mk_seed!($seedk, b)).verif_state();
                        let mut i = 0;
                        while i < $N {
                            assert!(st[i] == r[i]);
                            i += 1;
                        }
                    }
                    Err(e) => {
                        assert!(fail_at == 0);
                        assert!(e == SrcError(err));
                        assert!(src.inner.bytes == 0);
                    }
                }
                kani::cover!(fail_at == 0, "source fails");
                kani::cover!(fail_at > 0, "source works");
            }
        }
    };
}
xoshiro_table!(c08_type);

pub mod xorshift {
    use super::*;
    use rand_xorshift::XorShiftRng;
    const BAD: u32 = 0x0BAD5EED;
    /// maximal number of leading all-zero blocks explored (bound of the claim)
    const R: usize = 4;

    #[kani::proof]
    #[kani::unwind(18)]
    pub fn from_seed() {
        let b: [u8; 16] = kani::any();
        let mut nz = false;
        let mut i = 0;
        while i < 16 {
            nz |= b[i] != 0;
            i += 1;
        }
        let st = XorShiftRng::from_seed(b).verif_state();
        assert!(!all_zero!(st, 4));
        if nz {
            let w = le_words!(u32, 4, b);
            assert!(st[0] == w[0] && st[1] == w[1] && st[2] == w[2] && st[3] == w[3]);
        } else {
            assert!(st[0] == BAD && st[1] == BAD && st[2] == BAD && st[3] == BAD);
        }
        kani::cover!(nz, "non-zero seed");
        kani::cover!(!nz, "zero seed");
    }

    /// seed_from_u64 = from_seed(PCG32 expansion) (C09) and never zero (C08).
    #[kani::proof]
    #[kani::unwind(18)]
    #[kani::stub(u64::wrapping_mul, crate::c01::uf::umul64)]
    pub fn u64_route_uf() {
        u64_route_body(kani::any());
    }
    #[kani::proof]
    #[kani::unwind(18)]
    pub fn u64_route_real() {
        u64_route_body(kani::any());
    }
    fn u64_route_body(x: u64) {
        let g = XorShiftRng::seed_from_u64(x).verif_state();
        let mut b = [0u8; 16];
        crate::ref_xoshiro::pcg32_expand(x, &mut b);
        let r = XorShiftRng::from_seed(b).verif_state();
        assert!(g[0] == r[0] && g[1] == r[1] && g[2] == r[2] && g[3] == r[3]);
        assert!(!all_zero!(g, 4));
        kani::cover!(x > (1 << 63), "large x");
    }

    /// from_rng: redraws while the block is all zero (at most R leading zero
    /// blocks explored), then four LE words of the first non-zero block;
    /// source consumed exactly (zeros + 1) * 16 bytes.
    #[kani::proof]
    #[kani::unwind(18)]
    pub fn from_rng() {
        let z: usize = kani::any();
        kani::assume(z <= R);
        let mut src = Src::new();
        src.zero_blocks = z;
        src.force_nonzero_after = true;
        let st = XorShiftRng::from_rng(&mut src).verif_state();
        assert!(src.calls == z + 1 && src.bytes == 16 * (z + 1));
        let mut b = [0u8; 16];
        let mut i = 0;
        while i < 16 {
            b[i] = src.log[16 * z + i];
            i += 1;
        }
        let w = le_words!(u32, 4, b);
        assert!(st[0] == w[0] && st[1] == w[1] && st[2] == w[2] && st[3] == w[3]);
        assert!(!all_zero!(st, 4));
        kani::cover!(z == R, "maximal number of zero blocks");
        kani::cover!(z == 0, "no zero block");
    }

    #[kani::proof]
    #[kani::unwind(18)]
    pub fn try_from_rng() {
        let z: usize = kani::any();
        kani::assume(z <= R);
        let fail_at: usize = kani::any();
        let err: u32 = kani::any();
        let mut src = TrySrc::new(fail_at, err);
        src.inner.zero_blocks = z;
        src.inner.force_nonzero_after = true;
        match XorShiftRng::try_from_rng(&mut src) {
            Ok(g) => {
                let st = g.verif_state();
                assert!(fail_at > z);
                assert!(src.inner.calls == z + 1 && src.inner.bytes == 16 * (z + 1));
                let mut b = [0u8; 16];
                let mut i = 0;
                while i < 16 {
                    b[i] = src.inner.log[16 * z + i];
                    i += 1;
                }
                let w = le_words!(u32, 4, b);
                assert!(st[0] == w[0] && st[1] == w[1] && st[2] == w[2] && st[3] == w[3]);
                assert!(!all_zero!(st, 4));
            }
            Err(e) => {
                assert!(fail_at <= z);
                assert!(e == SrcError(err));
                assert!(src.inner.bytes == 16 * fail_at);
            }
        }
        kani::cover!(fail_at <= z, "fails during a redraw");
        kani::cover!(fail_at > z && z > 0, "succeeds after redraws");
    }
}
