//! C11 - serde snapshot at any point restores a generator with the identical
//! future. Built with `--features serde`; the code executed is the real
//! derive output of the crates, rand_isaac's isaac_array_serde and rand_core's
//! derives for BlockRng / BlockRng64, through the heap-free tape format.
use crate::tape::{from_tape, to_tape};
use rand_core::block::BlockRngCore;
use rand_core::{RngCore, SeedableRng};

macro_rules! c11_type {
    ($m:ident, $T:ty, $W:ident, $N:expr, $SB:expr, $native:ident, $refn:path, $seedk:ident, $half:ident, $kind:ident) => {
        pub mod $m {
            use super::*;
            /// Round trip from every state: serializing does not disturb the
            /// original; the restored generator has the same state words and
            /// compares equal.
            #[kani::proof]
            #[kani::unwind(70)]
            pub fn roundtrip() {
                let s: [$W; $N] = kani::any();
                let g = <$T>::verif_from_state(s);
                let mut tape = to_tape(&g).unwrap();
                assert!(tape.len == $N);
                let st = g.verif_state();
                let mut i = 0;
                while i < $N {
                    assert!(st[i] == s[i]);
                    assert!(tape.tok[i] == s[i] as u64);
                    i += 1;
                }
                let r: $T = from_tape(&mut tape).unwrap();
                let sr = r.verif_state();
                let mut i = 0;
                while i < $N {
                    assert!(sr[i] == s[i]);
                    i += 1;
                }
                assert!(r == g);
                kani::cover!(s[0] != 0, "non-zero state");
            }
        }
    };
}
xoshiro_table!(c11_type);
c11_type!(splitmix64, rand_xoshiro::SplitMix64, u64, 1, 8, next_u64, crate::ref_xoshiro::splitmix64, arr, mix4, ctr);
c11_type!(xorshift, rand_xorshift::XorShiftRng, u32, 4, 16, next_u32, crate::ref_xoshiro::xor128, arr, pair, lin);

/// IsaacRng: arbitrary core, arbitrary buffered block, arbitrary read position.
pub mod isaac {
    use super::*;
    use rand_isaac::isaac::IsaacCore;
    use rand_isaac::IsaacRng;

    #[kani::proof]
    #[kani::unwind(258)]
    #[kani::stub(<rand_isaac::isaac::IsaacCore as rand_core::block::BlockRngCore>::generate, crate::c05_block::isaac::gen_stub)]
    pub fn roundtrip() {
        body(None)
    }

    /// Quick-tier variant: read position fixed (17), contents arbitrary.
    #[kani::proof]
    #[kani::unwind(258)]
    #[kani::stub(<rand_isaac::isaac::IsaacCore as rand_core::block::BlockRngCore>::generate, crate::c05_block::isaac::gen_stub)]
    pub fn roundtrip_fixed() {
        body(Some(17))
    }

    fn body(fixed: Option<usize>) {
        let mut core = IsaacCore::verif_zeroed();
        let mut i = 0;
        while i < 256 {
            core.verif_set_mem(i, kani::any());
            i += 1;
        }
        core.verif_set_abc(kani::any(), kani::any(), kani::any());
        let mut g = IsaacRng::verif_from_core(core);
        let pos: usize = match fixed {
            Some(p) => p,
            None => kani::any(),
        };
        kani::assume(pos <= 256);
        if pos < 256 {
            // buffer filled with arbitrary words (stubbed generate), read position pos
            g.verif_inner_mut().generate_and_set(pos);
        }
        let mut tape = to_tape(&g).unwrap();
        let mut r: IsaacRng = from_tape(&mut tape).unwrap();
        // original undisturbed, restored equal in every field
        assert!(g.verif_inner().index() == if pos < 256 { pos } else { 256 });
        assert!(r.verif_inner().index() == g.verif_inner().index());
        let k: usize = kani::any();
        kani::assume(k < 256);
        assert!(r.verif_inner().core.verif_mem(k) == g.verif_inner().core.verif_mem(k));
        assert!(r.verif_inner().core.verif_abc() == g.verif_inner().core.verif_abc());
        // buffered but unconsumed words: the next read (at the arbitrary
        // position) agrees; at pos >= 255 this goes through a (stubbed) refill
        if pos < 255 {
            assert!(r.next_u32() == g.next_u32());
            assert!(r.verif_inner().index() == g.verif_inner().index());
        }
        kani::cover!(fixed.is_some() || pos == 256, "fresh");
        kani::cover!(pos == 17, "mid block");
    }
}

pub mod isaac64 {
    use super::*;
    use rand_isaac::isaac64::Isaac64Core;
    use rand_isaac::Isaac64Rng;

    #[kani::proof]
    #[kani::unwind(258)]
    #[kani::stub(<rand_isaac::isaac64::Isaac64Core as rand_core::block::BlockRngCore>::generate, crate::c05_block::isaac64::gen_stub)]
    pub fn roundtrip() {
        body(None)
    }

    /// Quick-tier variant: read position fixed (17, half-used), contents arbitrary.
    #[kani::proof]
    #[kani::unwind(258)]
    #[kani::stub(<rand_isaac::isaac64::Isaac64Core as rand_core::block::BlockRngCore>::generate, crate::c05_block::isaac64::gen_stub)]
    pub fn roundtrip_fixed() {
        body(Some(17))
    }

    fn body(fixed: Option<usize>) {
        let mut core = Isaac64Core::verif_zeroed();
        let mut i = 0;
        while i < 256 {
            core.verif_set_mem(i, kani::any());
            i += 1;
        }
        core.verif_set_abc(kani::any(), kani::any(), kani::any());
        let mut g = Isaac64Rng::verif_from_core(core);
        let pos: usize = match fixed {
            Some(p) => p,
            None => kani::any(),
        };
        kani::assume(pos < 255);
        g.verif_inner_mut().generate_and_set(pos);
        let half: bool = if fixed.is_some() { true } else { kani::any() };
        if half {
            let _ = g.next_u32();
        }
        let mut tape = to_tape(&g).unwrap();
        let mut r: Isaac64Rng = from_tape(&mut tape).unwrap();
        assert!(r.verif_inner().index() == g.verif_inner().index());
        let k: usize = kani::any();
        kani::assume(k < 256);
        assert!(r.verif_inner().core.verif_mem(k) == g.verif_inner().core.verif_mem(k));
        assert!(r.verif_inner().core.verif_abc() == g.verif_inner().core.verif_abc());
        // half-consumed word: the next next_u32 returns the pending high half on both
        assert!(r.next_u32() == g.next_u32());
        assert!(r.next_u64() == g.next_u64());
        assert!(r.verif_inner().index() == g.verif_inner().index());
        kani::cover!(half, "half-used word");
        kani::cover!(fixed.is_some() || (!half && pos == 0), "block start");
    }
}
