//! Harness-side source RNGs for from_rng / try_from_rng: every byte delivered
//! is an arbitrary (symbolic) value; the source counts calls and bytes and logs
//! what it delivered. The fallible variant starts failing at call number
//! `fail_at` (and keeps failing), returning its own error value.
use rand_core::{RngCore, TryRngCore};

pub const LOG: usize = 96;

pub struct Src {
    pub calls: usize,
    pub bytes: usize,
    pub log: [u8; LOG],
    /// the first `zero_blocks` fill_bytes calls deliver all-zero bytes
    pub zero_blocks: usize,
    /// the first block after the zero blocks is forced to be non-zero
    pub force_nonzero_after: bool,
}

impl Src {
    pub fn new() -> Self {
        Src { calls: 0, bytes: 0, log: [0; LOG], zero_blocks: 0, force_nonzero_after: false }
    }
    fn deliver(&mut self, dest: &mut [u8]) {
        let zero = self.calls < self.zero_blocks;
        let mut nz = false;
        let mut i = 0;
        while i < dest.len() {
            let v: u8 = if zero { 0 } else { kani::any() };
            nz |= v != 0;
            dest[i] = v;
            if self.bytes < LOG {
                self.log[self.bytes] = v;
            }
            self.bytes += 1;
            i += 1;
        }
        if self.force_nonzero_after && self.calls == self.zero_blocks {
            kani::assume(nz);
        }
        self.calls += 1;
    }
}

impl RngCore for Src {
    fn next_u32(&mut self) -> u32 {
        let mut b = [0u8; 4];
        self.deliver(&mut b);
        u32::from_le_bytes(b)
    }
    fn next_u64(&mut self) -> u64 {
        let mut b = [0u8; 8];
        self.deliver(&mut b);
        u64::from_le_bytes(b)
    }
    fn fill_bytes(&mut self, dest: &mut [u8]) {
        self.deliver(dest)
    }
}

#[derive(Clone, Copy, PartialEq, Eq, Debug)]
pub struct SrcError(pub u32);

pub struct TrySrc {
    pub inner: Src,
    /// calls with index >= fail_at fail
    pub fail_at: usize,
    pub err: u32,
}

impl TrySrc {
    pub fn new(fail_at: usize, err: u32) -> Self {
        TrySrc { inner: Src::new(), fail_at, err }
    }
}

impl TryRngCore for TrySrc {
    type Error = SrcError;
    fn try_next_u32(&mut self) -> Result<u32, SrcError> {
        let mut b = [0u8; 4];
        self.try_fill_bytes(&mut b)?;
        Ok(u32::from_le_bytes(b))
    }
    fn try_next_u64(&mut self) -> Result<u64, SrcError> {
        let mut b = [0u8; 8];
        self.try_fill_bytes(&mut b)?;
        Ok(u64::from_le_bytes(b))
    }
    fn try_fill_bytes(&mut self, dest: &mut [u8]) -> Result<(), SrcError> {
        if self.inner.calls >= self.fail_at {
            self.inner.calls += 1;
            return Err(SrcError(self.err));
        }
        self.inner.deliver(dest);
        Ok(())
    }
}

impl core::fmt::Display for SrcError {
    fn fmt(&self, _f: &mut core::fmt::Formatter) -> core::fmt::Result {
        Ok(())
    }
}
