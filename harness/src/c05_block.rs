//! C05, buffered generators: the real BlockRng / BlockRng64 code instantiated
//! with the real core types; `generate` is replaced by a recording stub that
//! returns arbitrary words (block contents are the business of C02/C03) and
//! logs the blocks in order: STREAM is the native word stream.
use rand_core::block::BlockRngCore;
use rand_core::{RngCore, SeedableRng};

// ------------------------------------------------------------------ Hc128Rng
pub mod hc {
    use super::*;
    use rand_hc::{Hc128Core, Hc128Rng};
    pub const BLK: usize = 16;
    pub const NBLK: usize = 4;
    pub static mut STREAM: [u32; BLK * NBLK] = [0; BLK * NBLK];
    pub static mut BLOCKS: usize = 0;

    #[allow(static_mut_refs)]
    pub fn gen_stub(_c: &mut Hc128Core, results: &mut [u32; 16]) {
        unsafe {
            let mut i = 0;
            while i < BLK {
                let v: u32 = kani::any();
                results[i] = v;
                if BLOCKS < NBLK {
                    STREAM[BLOCKS * BLK + i] = v;
                }
                i += 1;
            }
            BLOCKS += 1;
        }
    }

    /// A generator at read position `pos` of its first block (pos < 16), or
    /// fresh (pos == 16: nothing generated yet). Returns the generator and the
    /// absolute stream index of the next word it must hand out.
    pub fn at(pos: usize) -> (Hc128Rng, usize) {
        let mut rng = Hc128Rng::verif_from_core(Hc128Core::verif_zeroed());
        if pos < BLK {
            rng.verif_inner_mut().generate_and_set(pos);
            (rng, pos)
        } else {
            (rng, 0)
        }
    }

    #[allow(static_mut_refs)]
    fn s(i: usize) -> u32 {
        unsafe { STREAM[i] }
    }

    /// next_u32 / next_u64 from every position (symbolic, incl. fresh and the
    /// straddling one): the next one / two stream words, then the word after.
    #[kani::proof]
    #[kani::unwind(18)]
    #[kani::stub(<rand_hc::Hc128Core as rand_core::block::BlockRngCore>::generate, gen_stub)]
    pub fn next() {
        let pos: usize = kani::any();
        kani::assume(pos <= BLK);
        let (mut rng, mut nxt) = at(pos);
        if kani::any() {
            let v = rng.next_u32();
            assert!(v == s(nxt));
            nxt += 1;
        } else {
            let v = rng.next_u64();
            assert!(v == ((s(nxt + 1) as u64) << 32) | s(nxt) as u64);
            nxt += 2;
        }
        assert!(rng.next_u32() == s(nxt));
        assert!(rng.next_u32() == s(nxt + 1));
        kani::cover!(pos == 15, "straddling next_u64 possible");
        kani::cover!(pos == 16, "fresh");
        kani::cover!(pos == 0, "block start");
    }

    /// fill_bytes(N) at position POS (both concrete per instance, contents
    /// symbolic): first N little-endian bytes of the next ceil(N/4) stream
    /// words, across refills; the next native call returns the word after.
    #[allow(static_mut_refs)]
    pub fn fill<const POS: usize, const N: usize>() {
        let (mut rng, nxt) = at(POS);
        let mut buf = [0u8; N];
        rng.fill_bytes(&mut buf);
        let mut k = 0;
        while k < N {
            let w = s(nxt + k / 4).to_le_bytes();
            assert!(buf[k] == w[k % 4]);
            k += 1;
        }
        let after = nxt + (N + 3) / 4;
        assert!(rng.next_u32() == s(after));
        assert!(unsafe { BLOCKS } == (after + 1 + BLK - 1) / BLK);
    }
}

// ------------------------------------------------------------------ IsaacRng
pub mod isaac {
    use super::*;
    use rand_isaac::isaac::{IsaacCore, IsaacRng};
    pub const BLK: usize = 256;
    pub const NBLK: usize = 3;
    pub static mut STREAM: [u32; BLK * NBLK] = [0; BLK * NBLK];
    pub static mut BLOCKS: usize = 0;

    #[allow(static_mut_refs)]
    pub fn gen_stub(_c: &mut IsaacCore, results: &mut <IsaacCore as BlockRngCore>::Results) {
        unsafe {
            let mut i = 0;
            while i < BLK {
                let v: u32 = kani::any();
                results[i] = v;
                if BLOCKS < NBLK {
                    STREAM[BLOCKS * BLK + i] = v;
                }
                i += 1;
            }
            BLOCKS += 1;
        }
    }

    pub fn at(pos: usize) -> (IsaacRng, usize) {
        let mut rng = IsaacRng::verif_from_core(IsaacCore::verif_zeroed());
        if pos < BLK {
            rng.verif_inner_mut().generate_and_set(pos);
            (rng, pos)
        } else {
            (rng, 0)
        }
    }

    #[allow(static_mut_refs)]
    fn s(i: usize) -> u32 {
        unsafe { STREAM[i] }
    }

    #[kani::proof]
    #[kani::unwind(258)]
    #[kani::stub(<rand_isaac::isaac::IsaacCore as rand_core::block::BlockRngCore>::generate, gen_stub)]
    pub fn next() {
        let pos: usize = kani::any();
        kani::assume(pos <= BLK);
        let (mut rng, mut nxt) = at(pos);
        if kani::any() {
            let v = rng.next_u32();
            assert!(v == s(nxt));
            nxt += 1;
        } else {
            let v = rng.next_u64();
            assert!(v == ((s(nxt + 1) as u64) << 32) | s(nxt) as u64);
            nxt += 2;
        }
        assert!(rng.next_u32() == s(nxt));
        kani::cover!(pos == 255, "straddling next_u64 possible");
        kani::cover!(pos == 256, "fresh");
        kani::cover!(pos == 100, "mid block");
    }

    #[allow(static_mut_refs)]
    pub fn fill<const POS: usize, const N: usize>() {
        let (mut rng, nxt) = at(POS);
        let mut buf = [0u8; N];
        rng.fill_bytes(&mut buf);
        let mut k = 0;
        while k < N {
            let w = s(nxt + k / 4).to_le_bytes();
            assert!(buf[k] == w[k % 4]);
            k += 1;
        }
        let after = nxt + (N + 3) / 4;
        assert!(rng.next_u32() == s(after));
    }
}

// ---------------------------------------------------------------- Isaac64Rng
pub mod isaac64 {
    use super::*;
    use rand_isaac::isaac64::{Isaac64Core, Isaac64Rng};
    pub const BLK: usize = 256;
    pub const NBLK: usize = 3;
    pub static mut STREAM: [u64; BLK * NBLK] = [0; BLK * NBLK];
    pub static mut BLOCKS: usize = 0;

    #[allow(static_mut_refs)]
    pub fn gen_stub(_c: &mut Isaac64Core, results: &mut <Isaac64Core as BlockRngCore>::Results) {
        unsafe {
            let mut i = 0;
            while i < BLK {
                let v: u64 = kani::any();
                results[i] = v;
                if BLOCKS < NBLK {
                    STREAM[BLOCKS * BLK + i] = v;
                }
                i += 1;
            }
            BLOCKS += 1;
        }
    }

    /// Position `pos` (< 256, or 256 = fresh); `half`: additionally one
    /// next_u32 has consumed the low half of the word at `pos` (returns that
    /// low half for checking). Next *whole* word index is returned.
    pub fn at(pos: usize, half: bool) -> (Isaac64Rng, usize, bool) {
        let mut rng = Isaac64Rng::verif_from_core(Isaac64Core::verif_zeroed());
        let mut nxt = 0;
        if pos < BLK {
            rng.verif_inner_mut().generate_and_set(pos);
            nxt = pos;
        }
        if half {
            let lo = rng.next_u32();
            assert!(lo == s(nxt) as u32);
            nxt += 1;
        }
        (rng, nxt, half)
    }

    #[allow(static_mut_refs)]
    fn s(i: usize) -> u64 {
        unsafe { STREAM[i] }
    }

    /// next_u32: low half, then (immediately following next_u32) the high half
    /// of the same word; next_u64 and any other call discard a pending half.
    #[kani::proof]
    #[kani::unwind(258)]
    #[kani::stub(<rand_isaac::isaac64::Isaac64Core as rand_core::block::BlockRngCore>::generate, gen_stub)]
    pub fn next() {
        next_body(0)
    }

    /// Quick-tier variant of `next`: positions within 4 words of the block end
    /// and the fresh state only (the full-range harness needs ~8 minutes).
    #[kani::proof]
    #[kani::unwind(258)]
    #[kani::stub(<rand_isaac::isaac64::Isaac64Core as rand_core::block::BlockRngCore>::generate, gen_stub)]
    pub fn next_end() {
        next_body(252)
    }

    fn next_body(min_pos: usize) {
        let pos: usize = kani::any();
        kani::assume(pos <= BLK && pos >= min_pos);
        let half: bool = kani::any();
        let (mut rng, mut nxt, half) = at(pos, half);
        let op: u8 = kani::any();
        if op == 0 {
            let v = rng.next_u32();
            if half {
                // high half of the word whose low half was just handed out
                assert!(v == (s(nxt - 1) >> 32) as u32);
            } else {
                assert!(v == s(nxt) as u32);
                let hi = rng.next_u32();
                assert!(hi == (s(nxt) >> 32) as u32);
                nxt += 1;
            }
        } else {
            let v = rng.next_u64();
            assert!(v == s(nxt));
            nxt += 1;
        }
        assert!(rng.next_u64() == s(nxt));
        kani::cover!(pos == 255 && half, "half-used last word");
        kani::cover!(pos == 256 && !half, "fresh");
        kani::cover!(op == 0 && half, "second half");
    }

    #[allow(static_mut_refs)]
    pub fn fill<const POS: usize, const HALF: bool, const N: usize>() {
        let (mut rng, nxt, _) = at(POS, HALF);
        let mut buf = [0u8; N];
        rng.fill_bytes(&mut buf);
        let mut k = 0;
        while k < N {
            let w = s(nxt + k / 8).to_le_bytes();
            assert!(buf[k] == w[k % 8]);
            k += 1;
        }
        let after = nxt + (N + 7) / 8;
        assert!(rng.next_u64() == s(after));
    }
}

include!("c05_block_gen.rs");
