//! Reference models of the xoshiro / xoroshiro family and SplitMix64,
//! transcribed from Blackman & Vigna's public-domain C sources
//! (xoshiro/xoroshiro 1.0, xoshiro128** 1.1, splitmix64.c) and from dsiutils
//! (SplitMix64's 32-bit "Mix4" finalizer). Written in the shape of the C code:
//! `s[]` arrays, `rotl`, `result` computed first, then the state update.
//!
//! Every function maps a state to (successor state, output word).

#[inline(always)]
fn rotl64(x: u64, k: u32) -> u64 {
    (x << k) | (x >> (64 - k))
}
#[inline(always)]
fn rotl32(x: u32, k: u32) -> u32 {
    (x << k) | (x >> (32 - k))
}

// ---------------------------------------------------------------- engines

/// xoroshiro64 (xoroshiro64star.c / xoroshiro64starstar.c), constants 26, 9, 13.
pub fn xoroshiro64_next(s: [u32; 2]) -> [u32; 2] {
    let s0 = s[0];
    let mut s1 = s[1];
    s1 ^= s0;
    [rotl32(s0, 26) ^ s1 ^ (s1 << 9), rotl32(s1, 13)]
}

/// xoroshiro128 (xoroshiro128plus.c / xoroshiro128starstar.c), constants 24, 16, 37.
pub fn xoroshiro128_next(s: [u64; 2]) -> [u64; 2] {
    let s0 = s[0];
    let mut s1 = s[1];
    s1 ^= s0;
    [rotl64(s0, 24) ^ s1 ^ (s1 << 16), rotl64(s1, 37)]
}

/// xoroshiro128 for the ++ scrambler (xoroshiro128plusplus.c), constants 49, 21, 28.
pub fn xoroshiro128pp_next(s: [u64; 2]) -> [u64; 2] {
    let s0 = s[0];
    let mut s1 = s[1];
    s1 ^= s0;
    [rotl64(s0, 49) ^ s1 ^ (s1 << 21), rotl64(s1, 28)]
}

/// xoshiro128 (xoshiro128plus.c etc.), constants 9, 11.
pub fn xoshiro128_next(mut s: [u32; 4]) -> [u32; 4] {
    let t = s[1] << 9;
    s[2] ^= s[0];
    s[3] ^= s[1];
    s[1] ^= s[2];
    s[0] ^= s[3];
    s[2] ^= t;
    s[3] = rotl32(s[3], 11);
    s
}

/// xoshiro256 (xoshiro256plus.c etc.), constants 17, 45.
pub fn xoshiro256_next(mut s: [u64; 4]) -> [u64; 4] {
    let t = s[1] << 17;
    s[2] ^= s[0];
    s[3] ^= s[1];
    s[1] ^= s[2];
    s[0] ^= s[3];
    s[2] ^= t;
    s[3] = rotl64(s[3], 45);
    s
}

/// xoshiro512 (xoshiro512plus.c etc.), constants 11, 21.
pub fn xoshiro512_next(mut s: [u64; 8]) -> [u64; 8] {
    let t = s[1] << 11;
    s[2] ^= s[0];
    s[5] ^= s[1];
    s[1] ^= s[2];
    s[7] ^= s[3];
    s[3] ^= s[4];
    s[4] ^= s[5];
    s[0] ^= s[6];
    s[6] ^= s[7];
    s[6] ^= t;
    s[7] = rotl64(s[7], 21);
    s
}

// ------------------------------------------------------------- generators
// Each returns (successor state, output).

pub fn xoroshiro64star(s: [u32; 2]) -> ([u32; 2], u32) {
    let result = s[0].wrapping_mul(0x9E3779BB);
    (xoroshiro64_next(s), result)
}
pub fn xoroshiro64starstar(s: [u32; 2]) -> ([u32; 2], u32) {
    let result = rotl32(s[0].wrapping_mul(0x9E3779BB), 5).wrapping_mul(5);
    (xoroshiro64_next(s), result)
}
pub fn xoroshiro128plus(s: [u64; 2]) -> ([u64; 2], u64) {
    let result = s[0].wrapping_add(s[1]);
    (xoroshiro128_next(s), result)
}
pub fn xoroshiro128starstar(s: [u64; 2]) -> ([u64; 2], u64) {
    let result = rotl64(s[0].wrapping_mul(5), 7).wrapping_mul(9);
    (xoroshiro128_next(s), result)
}
pub fn xoroshiro128plusplus(s: [u64; 2]) -> ([u64; 2], u64) {
    let result = rotl64(s[0].wrapping_add(s[1]), 17).wrapping_add(s[0]);
    (xoroshiro128pp_next(s), result)
}
pub fn xoshiro128plus(s: [u32; 4]) -> ([u32; 4], u32) {
    let result = s[0].wrapping_add(s[3]);
    (xoshiro128_next(s), result)
}
pub fn xoshiro128plusplus(s: [u32; 4]) -> ([u32; 4], u32) {
    let result = rotl32(s[0].wrapping_add(s[3]), 7).wrapping_add(s[0]);
    (xoshiro128_next(s), result)
}
/// xoshiro128** version 1.1 (scrambles s[1]).
pub fn xoshiro128starstar(s: [u32; 4]) -> ([u32; 4], u32) {
    let result = rotl32(s[1].wrapping_mul(5), 7).wrapping_mul(9);
    (xoshiro128_next(s), result)
}
pub fn xoshiro256plus(s: [u64; 4]) -> ([u64; 4], u64) {
    let result = s[0].wrapping_add(s[3]);
    (xoshiro256_next(s), result)
}
pub fn xoshiro256plusplus(s: [u64; 4]) -> ([u64; 4], u64) {
    let result = rotl64(s[0].wrapping_add(s[3]), 23).wrapping_add(s[0]);
    (xoshiro256_next(s), result)
}
pub fn xoshiro256starstar(s: [u64; 4]) -> ([u64; 4], u64) {
    let result = rotl64(s[1].wrapping_mul(5), 7).wrapping_mul(9);
    (xoshiro256_next(s), result)
}
pub fn xoshiro512plus(s: [u64; 8]) -> ([u64; 8], u64) {
    let result = s[0].wrapping_add(s[2]);
    (xoshiro512_next(s), result)
}
pub fn xoshiro512plusplus(s: [u64; 8]) -> ([u64; 8], u64) {
    let result = rotl64(s[0].wrapping_add(s[2]), 17).wrapping_add(s[2]);
    (xoshiro512_next(s), result)
}
pub fn xoshiro512starstar(s: [u64; 8]) -> ([u64; 8], u64) {
    let result = rotl64(s[1].wrapping_mul(5), 7).wrapping_mul(9);
    (xoshiro512_next(s), result)
}

// ------------------------------------------------------------- SplitMix64

pub const SPLITMIX_GAMMA: u64 = 0x9e3779b97f4a7c15;

/// splitmix64.c: `next()`. Returns (new x, result).
pub fn splitmix64(x: u64) -> (u64, u64) {
    let x = x.wrapping_add(SPLITMIX_GAMMA);
    let mut z = x;
    z = (z ^ (z >> 30)).wrapping_mul(0xbf58476d1ce4e5b9);
    z = (z ^ (z >> 27)).wrapping_mul(0x94d049bb133111eb);
    (x, z ^ (z >> 31))
}

/// dsiutils SplitMix64RandomGenerator.nextInt(): Stafford's Mix4, upper 32 bits.
pub fn splitmix64_mix4(x: u64) -> (u64, u32) {
    let x = x.wrapping_add(SPLITMIX_GAMMA);
    let mut z = x;
    z = (z ^ (z >> 33)).wrapping_mul(0x62a9d9ed799705f5);
    z = (z ^ (z >> 28)).wrapping_mul(0xcb24d0a5c88c35b3);
    (x, (z >> 32) as u32)
}

// ------------------------------------------------------------- xorshift128

/// Marsaglia's xor128 ("Xorshift RNGs", 2003, p. 5):
/// `t = x^(x<<11); x=y; y=z; z=w; w = (w^(w>>19))^(t^(t>>8))`.
/// State order (x, y, z, w); returns (new state, new w).
pub fn xor128(s: [u32; 4]) -> ([u32; 4], u32) {
    let (x, y, z, w) = (s[0], s[1], s[2], s[3]);
    let t = x ^ (x << 11);
    let w2 = (w ^ (w >> 19)) ^ (t ^ (t >> 8));
    ([y, z, w, w2], w2)
}

// ------------------------------------------------------------- PCG32 seed expansion

/// rand_core 0.9's documented default `seed_from_u64`: PCG32 (XSH RR 64/32),
/// multiplier 6364136223846793005, increment 11634580027462260723, one
/// 32-bit output per 4 seed bytes, little endian. `out.len()` must be a
/// multiple of 4.
pub fn pcg32_expand(mut state: u64, out: &mut [u8]) {
    const MUL: u64 = 6364136223846793005;
    const INC: u64 = 11634580027462260723;
    let mut i = 0;
    while i < out.len() {
        state = state.wrapping_mul(MUL).wrapping_add(INC);
        let xorshifted = (((state >> 18) ^ state) >> 27) as u32;
        let rot = (state >> 59) as u32;
        let x = xorshifted.rotate_right(rot);
        let b = x.to_le_bytes();
        out[i] = b[0];
        out[i + 1] = b[1];
        out[i + 2] = b[2];
        out[i + 3] = b[3];
        i += 4;
    }
}
