//! C10 - clone() and == are congruences (xoshiro family and XorShiftRng part).
use rand_core::{RngCore, SeedableRng};

macro_rules! c10_type {
    ($m:ident, $T:ty, $W:ident, $N:expr, $SB:expr, $native:ident, $refn:path, $seedk:ident, $half:ident, $kind:ident) => {
        pub mod $m {
            use super::*;

            /// From every state: the clone compares equal and has the same
            /// fields; next_u32, next_u64 and fill_bytes(9) on both return the
            /// same values and leave them equal. (Large-constant
            /// multiplications as an uninterpreted function.)
            #[kani::proof]
            #[kani::unwind(70)]
            #[kani::stub(u64::wrapping_mul, crate::c01::uf::umul64)]
            #[kani::stub(u32::wrapping_mul, crate::c01::uf::umul32)]
            pub fn clone_op() {
                let s: [$W; $N] = kani::any();
                let mut g = <$T>::verif_from_state(s);
                let mut c = g.clone();
                assert!(c == g);
                let (sg, sc) = (g.verif_state(), c.verif_state());
                let mut i = 0;
                while i < $N {
                    assert!(sg[i] == s[i] && sc[i] == s[i]);
                    i += 1;
                }
                assert!(g.next_u32() == c.next_u32());
                assert!(g.next_u64() == c.next_u64());
                let mut b1 = [0u8; 9];
                let mut b2 = [0u8; 9];
                g.fill_bytes(&mut b1);
                c.fill_bytes(&mut b2);
                let mut k = 0;
                while k < 9 {
                    assert!(b1[k] == b2[k]);
                    k += 1;
                }
                assert!(c == g);
                let (sg, sc) = (g.verif_state(), c.verif_state());
                let mut i = 0;
                while i < $N {
                    assert!(sg[i] == sc[i]);
                    i += 1;
                }
                kani::cover!(sg[0] != s[0], "state moved");
            }

            /// Two arbitrary generators: == holds exactly when all state
            /// words are equal (a dropped field would break "only if").
            #[kani::proof]
            #[kani::unwind(70)]
            pub fn eq_fields() {
                let a: [$W; $N] = kani::any();
                let b: [$W; $N] = kani::any();
                let ga = <$T>::verif_from_state(a);
                let gb = <$T>::verif_from_state(b);
                let mut same = true;
                let mut i = 0;
                while i < $N {
                    same &= a[i] == b[i];
                    i += 1;
                }
                assert!((ga == gb) == same);
                assert!(ga == ga);
                assert!((ga != gb) == !same);
                kani::cover!(same, "equal pair");
                kani::cover!(!same, "different pair");
            }
        }
    };
}
xoshiro_table!(c10_type);
c10_type!(splitmix64, rand_xoshiro::SplitMix64, u64, 1, 8, next_u64, crate::ref_xoshiro::splitmix64, arr, mix4, ctr);
c10_type!(xorshift, rand_xorshift::XorShiftRng, u32, 4, 16, next_u32, crate::ref_xoshiro::xor128, arr, pair, lin);

/// jump()/long_jump() on a clone and on the original agree (128-bit types;
/// the loop bodies are identical for the larger ones).
macro_rules! c10_jump {
    ($m:ident, $T:ty, $W:ident, $N:expr, $bits:expr) => {
        pub mod $m {
            use super::*;
            #[kani::proof]
            #[kani::unwind(130)]
            pub fn clone_jump() {
                let s: [$W; $N] = kani::any();
                let mut g = <$T>::verif_from_state(s);
                let mut c = g.clone();
                if kani::any() {
                    g.jump();
                    c.jump();
                } else {
                    g.long_jump();
                    c.long_jump();
                }
                assert!(c == g);
                let (sg, sc) = (g.verif_state(), c.verif_state());
                let mut i = 0;
                while i < $N {
                    assert!(sg[i] == sc[i]);
                    i += 1;
                }
            }
        }
    };
}
c10_jump!(jump_xoroshiro128plus, rand_xoshiro::Xoroshiro128Plus, u64, 2, 128);
c10_jump!(jump_xoshiro128plusplus, rand_xoshiro::Xoshiro128PlusPlus, u32, 4, 128);
