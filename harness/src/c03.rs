//! C03 - IsaacRng / Isaac64Rng equal Jenkins' ISAAC / ISAAC-64.
//!
//! The refill (`generate`) and the initialisation (`init`) are long chains of
//! additions with data-dependent table reads; a lock-step miter against a
//! second copy never finished in any formulation (DESIGN section 10). They are
//! decided with a "UF-cut": the wrapping addition (and subtraction) is
//! replaced by a stub that returns a FRESH arbitrary value for every call and
//! checks, on the fly and for every value the earlier calls may have
//! returned, that its two operands are exactly the operands Jenkins'
//! algorithm prescribes at that point (computed from the stub's own shadow
//! state, which is updated with the returned values). Because the real
//! addition is one possible choice of return values, the real run follows
//! Jenkins' algorithm step for step (induction over the calls, outside the
//! solver); the stub's shadow state is then the reference state, and the
//! harness compares the real final state and results with it.
use crate::ref_isaac as ri;
use rand_core::block::BlockRngCore;
use rand_core::{RngCore, SeedableRng};

// The stub reads the REAL generator memory through a raw pointer stashed by the
// harness (the core is borrowed mutably by `generate` at that moment; for the
// model checker this is simply a read of the current memory state), so the
// expected operand `mm[(x >> 2) % 256]` is literally the same array read the
// code just performed - no shadow copy of the memory is needed. Stores are
// checked on the fly as well (mm[i] = y right after it happened, randrsl of the
// previous step at the next step's first call), and one symbolic index K,
// chosen before the run, records y_K and b_K for the final comparison of
// memory and results (for all K).
macro_rules! isaac_generate {
    ($m:ident, $Core:ty, $W:ident, $mix:path, $sh1:expr, $sh2:expr) => {
        pub mod $m {
            use super::*;
            static mut N: usize = 0;
            static mut OK: bool = true;
            static mut A: $W = 0;
            static mut B: $W = 0;
            static mut C: $W = 0;
            static mut T: $W = 0;
            static mut X: $W = 0;
            static mut Y: $W = 0;
            static mut CORE: *const $Core = core::ptr::null();
            static mut RES: *const <$Core as BlockRngCore>::Results = core::ptr::null();
            static mut K: usize = 0;
            static mut YK: $W = 0;
            static mut BK: $W = 0;
            // only the steps LO <= i < HI are checked in one harness
            static mut LO: usize = 0;
            static mut HI: usize = 256;

            fn pair(a: $W, b: $W, e1: $W, e2: $W) -> bool {
                (a == e1 && b == e2) || (a == e2 && b == e1)
            }
            #[allow(static_mut_refs)]
            fn mm(k: usize) -> $W {
                unsafe { (*CORE).verif_mem(k) }
            }
            #[allow(static_mut_refs)]
            fn rsl(k: usize) -> $W {
                unsafe { (&(*RES))[k % 256] }
            }

            #[allow(static_mut_refs)]
            fn add_cut(a: $W, b: $W) -> $W {
                unsafe {
                    let r: $W = kani::any();
                    let n = N;
                    N += 1;
                    if n == 0 {
                        // cc = cc + 1
                        OK &= pair(a, b, C, 1);
                        C = r;
                    } else if n == 1 {
                        // bb = bb + cc
                        OK &= pair(a, b, B, C);
                        B = r;
                    } else if n < 2 + 4 * 256 {
                        let i = (n - 2) / 4;
                        let chk = i >= LO && i < HI;
                        match (n - 2) % 4 {
                            0 => {
                                // the previous step has stored its result: randrsl[i-1] = bb,
                                // handed out in reverse order (results[255 - (i-1)])
                                if i > 0 && chk {
                                    OK &= rsl(256 - i) == B;
                                }
                                // x = mm[i]; aa = mix(aa) + mm[(i+128) % 256]
                                X = mm(i);
                                OK &= !chk || pair(a, b, $mix(i, A), mm((i + 128) % 256));
                                A = r;
                            }
                            1 => {
                                // aa + bb
                                OK &= !chk || pair(a, b, A, B);
                                T = r;
                            }
                            2 => {
                                // y = (aa + bb) + mm[(x >> sh1) % 256]
                                OK &= !chk || pair(a, b, T, mm((X >> $sh1) as usize % 256));
                                Y = r;
                                if i == K {
                                    YK = r;
                                }
                            }
                            _ => {
                                // mm[i] = y has happened; bb = x + mm[(y >> sh2) % 256]
                                OK &= !chk || (mm(i) == Y && pair(a, b, X, mm((Y >> $sh2) as usize % 256)));
                                B = r;
                                if i == K {
                                    BK = r;
                                }
                            }
                        }
                    } else {
                        OK = false;
                    }
                    r
                }
            }

            /// One refill from every (mm, aa, bb, cc): Jenkins' isaac()/isaac64(),
            /// results handed out in reverse index order.
            #[allow(static_mut_refs)]
            fn body(lo: usize, hi: usize) {
                let mut core = <$Core>::verif_zeroed();
                let mut i = 0;
                while i < 256 {
                    core.verif_set_mem(i, kani::any());
                    i += 1;
                }
                let (a0, b0, c0): ($W, $W, $W) = (kani::any(), kani::any(), kani::any());
                core.verif_set_abc(a0, b0, c0);
                let k: usize = kani::any();
                kani::assume(k < 256);
                let m0k = core.verif_mem(k);
                let mut results = <$Core as BlockRngCore>::Results::default();
                unsafe {
                    LO = lo;
                    HI = hi;
                    A = a0;
                    B = b0;
                    C = c0;
                    K = k;
                    CORE = &core as *const $Core;
                    RES = &results as *const _;
                }
                core.generate(&mut results);
                unsafe {
                    assert!(N == 2 + 4 * 256);
                    assert!(OK);
                    let (a, b, c) = core.verif_abc();
                    assert!(a == A && b == B && c == C);
                    // final memory and results at the arbitrary index K
                    assert!(core.verif_mem(k) == YK);
                    assert!(results[255 - k] == BK);
                    // the last step's result (no later call checks it)
                    assert!(results[0] == B);
                }
                kani::cover!(c0 == <$W>::MAX, "cc wraps");
                kani::cover!(m0k == 77, "arbitrary memory reachable");
            }

            macro_rules! band {
                ($name:ident, $lo:expr, $hi:expr) => {
                    #[kani::proof]
                    #[kani::unwind(258)]
                    #[kani::stub($W::wrapping_add, add_cut)]
                    pub fn $name() {
                        body($lo, $hi)
                    }
                };
            }
            band!(generate_0, 0, 64);
            band!(generate_1, 64, 128);
            band!(generate_2, 128, 192);
            band!(generate_3, 192, 256);
            // bands of 32 steps (ISAAC-64's 64-step bands ran past 57 min)
            band!(generate_h0, 0, 32);
            band!(generate_h1, 32, 64);
            band!(generate_h2, 64, 96);
            band!(generate_h3, 96, 128);
            band!(generate_h4, 128, 160);
            band!(generate_h5, 160, 192);
            band!(generate_h6, 192, 224);
            band!(generate_h7, 224, 256);
            band!(generate, 0, 256);
            // quick-tier detector: the first 6 steps only (the step code is the
            // same for all steps; a change in it shows here)
            band!(generate_q, 0, 6);
        }
    };
}
isaac_generate!(gen32, rand_isaac::isaac::IsaacCore, u32, ri::mix32, 2, 10);
isaac_generate!(gen64, rand_isaac::isaac64::Isaac64Core, u64, ri::mix64, 3, 11);

// ============================================================ seeding routes
// `init` is replaced by a recording stub here (its own behaviour vs randinit()
// is the subject of init32 / init64 below).

/// A source that delivers arbitrary bytes and logs up to 2048 of them.
pub struct BigSrc {
    pub calls: usize,
    pub bytes: usize,
    pub log: [u8; 2048],
}
impl BigSrc {
    pub fn new() -> Self {
        BigSrc { calls: 0, bytes: 0, log: [0; 2048] }
    }
}
impl RngCore for BigSrc {
    fn next_u32(&mut self) -> u32 {
        self.calls += 1;
        kani::any()
    }
    fn next_u64(&mut self) -> u64 {
        self.calls += 1;
        kani::any()
    }
    fn fill_bytes(&mut self, dest: &mut [u8]) {
        let mut i = 0;
        while i < dest.len() {
            let v: u8 = kani::any();
            dest[i] = v;
            if self.bytes < 2048 {
                self.log[self.bytes] = v;
            }
            self.bytes += 1;
            i += 1;
        }
        self.calls += 1;
    }
}
pub struct TryBigSrc {
    pub inner: BigSrc,
    pub fail_at: usize,
    pub err: u32,
}
impl rand_core::TryRngCore for TryBigSrc {
    type Error = crate::src_rng::SrcError;
    fn try_next_u32(&mut self) -> Result<u32, Self::Error> {
        Ok(self.inner.next_u32())
    }
    fn try_next_u64(&mut self) -> Result<u64, Self::Error> {
        Ok(self.inner.next_u64())
    }
    fn try_fill_bytes(&mut self, dest: &mut [u8]) -> Result<(), Self::Error> {
        if self.inner.calls >= self.fail_at {
            self.inner.calls += 1;
            return Err(crate::src_rng::SrcError(self.err));
        }
        self.inner.fill_bytes(dest);
        Ok(())
    }
}

/// A source that only counts (delivers zero bytes): for the cheap "shape"
/// harnesses of from_rng / try_from_rng (how many bytes, how many calls).
pub struct CountSrc {
    pub calls: usize,
    pub bytes: usize,
    pub fail_at: usize,
    pub err: u32,
}
impl RngCore for CountSrc {
    fn next_u32(&mut self) -> u32 {
        self.calls += 1;
        0
    }
    fn next_u64(&mut self) -> u64 {
        self.calls += 1;
        0
    }
    fn fill_bytes(&mut self, dest: &mut [u8]) {
        self.calls += 1;
        self.bytes += dest.len();
    }
}
pub struct TryCountSrc(pub CountSrc);
impl rand_core::TryRngCore for TryCountSrc {
    type Error = crate::src_rng::SrcError;
    fn try_next_u32(&mut self) -> Result<u32, Self::Error> {
        Ok(self.0.next_u32())
    }
    fn try_next_u64(&mut self) -> Result<u64, Self::Error> {
        Ok(self.0.next_u64())
    }
    fn try_fill_bytes(&mut self, dest: &mut [u8]) -> Result<(), Self::Error> {
        if self.0.calls >= self.0.fail_at {
            self.0.calls += 1;
            return Err(crate::src_rng::SrcError(self.0.err));
        }
        self.0.fill_bytes(dest);
        Ok(())
    }
}

macro_rules! isaac_seeding {
    ($m:ident, $Core:ty, $Rng:ty, $W:ident, $NB:expr, $seedwords:expr, $initpath:path, $from_seed_path:path) => {
        pub mod $m {
            use super::*;
            use core::num::Wrapping;
            static mut INIT_CALLS: usize = 0;
            static mut INIT_KEY: [$W; 256] = [0; 256];
            static mut INIT_ROUNDS: u32 = 0;
            static mut INIT_MARK: $W = 0;

            #[allow(static_mut_refs)]
            fn init_stub(mem: [Wrapping<$W>; 256], rounds: u32) -> $Core {
                unsafe {
                    let mut i = 0;
                    while i < 256 {
                        INIT_KEY[i] = mem[i].0;
                        i += 1;
                    }
                    INIT_ROUNDS = rounds;
                    INIT_CALLS += 1;
                    let m: $W = kani::any();
                    INIT_MARK = m;
                    let mut c = <$Core>::verif_zeroed();
                    c.verif_set_mem(0, m);
                    c
                }
            }

            #[allow(static_mut_refs)]
            fn fresh_from_stub(g: &$Rng) -> bool {
                unsafe { INIT_CALLS == 1 && g.verif_inner().core.verif_mem(0) == INIT_MARK && g.verif_inner().index() == 256 }
            }

            #[allow(static_mut_refs)]
            fn key(k: usize) -> $W {
                unsafe { INIT_KEY[k] }
            }

            /// from_seed: the seed's little-endian words fill the first seed
            /// slots, all other slots are zero, two passes; fresh buffer.
            #[kani::proof]
            #[kani::unwind(260)]
            #[kani::stub($initpath, init_stub)]
            pub fn from_seed() {
                let seed: [u8; 32] = kani::any();
                let g = <$Rng>::from_seed(seed);
                assert!(fresh_from_stub(&g) && unsafe { INIT_ROUNDS } == 2);
                let w = le_words!($W, $seedwords, seed);
                let k: usize = kani::any();
                kani::assume(k < 256);
                if k < $seedwords {
                    assert!(key(k) == w[k]);
                } else {
                    assert!(key(k) == 0);
                }
                kani::cover!(k == $seedwords - 1, "last seed word");
                kani::cover!(k == 255, "last slot");
            }

            /// seed_from_u64: x in the first key word(s), zeros elsewhere, ONE pass.
            #[kani::proof]
            #[kani::unwind(260)]
            #[kani::stub($initpath, init_stub)]
            pub fn seed_from_u64() {
                let x: u64 = kani::any();
                let g = <$Rng>::seed_from_u64(x);
                assert!(fresh_from_stub(&g) && unsafe { INIT_ROUNDS } == 1);
                let k: usize = kani::any();
                kani::assume(k < 256);
                let expect: $W = if $NB == 4 {
                    if k == 0 { x as $W } else if k == 1 { (x >> 32) as $W } else { 0 }
                } else {
                    if k == 0 { x as $W } else { 0 }
                };
                assert!(key(k) == expect);
                kani::cover!(x == 0, "reference generator used unseeded");
            }

            /// from_rng: one fill_bytes call of 256 words' worth of bytes, read
            /// as little-endian words, two passes.
            #[kani::proof]
            #[kani::unwind(2050)]
            #[kani::stub($initpath, init_stub)]
            pub fn from_rng() {
                let mut src = BigSrc::new();
                let g = <$Rng>::from_rng(&mut src);
                assert!(src.calls == 1 && src.bytes == 256 * $NB);
                assert!(fresh_from_stub(&g) && unsafe { INIT_ROUNDS } == 2);
                let k: usize = kani::any();
                kani::assume(k < 256);
                let mut b = [0u8; 8];
                let mut j = 0;
                while j < $NB {
                    b[j] = src.log[$NB * k + j];
                    j += 1;
                }
                assert!(key(k) as u64 == u64::from_le_bytes(b));
            }

            /// Quick-tier shape of from_rng / try_from_rng (counting source, no
            /// byte contents): exactly one call for 256 words' worth of bytes,
            /// two passes, fresh buffer; the source's error and no
            /// initialisation when it fails at that call.
            #[kani::proof]
            #[kani::unwind(260)]
            #[kani::stub($initpath, init_stub)]
            #[allow(static_mut_refs)]
            pub fn rng_routes_shape() {
                let mut s1 = CountSrc { calls: 0, bytes: 0, fail_at: usize::MAX, err: 0 };
                let g = <$Rng>::from_rng(&mut s1);
                assert!(s1.calls == 1 && s1.bytes == 256 * $NB);
                assert!(fresh_from_stub(&g) && unsafe { INIT_ROUNDS } == 2);
                unsafe {
                    INIT_CALLS = 0;
                }
                let fail_at: usize = kani::any();
                let err: u32 = kani::any();
                let mut s2 = TryCountSrc(CountSrc { calls: 0, bytes: 0, fail_at, err });
                match <$Rng>::try_from_rng(&mut s2) {
                    Ok(g2) => {
                        assert!(fail_at >= 1);
                        assert!(s2.0.calls == 1 && s2.0.bytes == 256 * $NB);
                        assert!(fresh_from_stub(&g2) && unsafe { INIT_ROUNDS } == 2);
                    }
                    Err(e) => {
                        assert!(fail_at == 0 && e == crate::src_rng::SrcError(err));
                        assert!(unsafe { INIT_CALLS } == 0 && s2.0.bytes == 0);
                    }
                }
                kani::cover!(fail_at == 0, "source fails");
                kani::cover!(fail_at > 0, "source works");
            }

            /// try_from_rng: as from_rng for a working source; the source's
            /// error, and no initialisation at all, when it fails.
            #[kani::proof]
            #[kani::unwind(2050)]
            #[kani::stub($initpath, init_stub)]
            #[allow(static_mut_refs)]
            pub fn try_from_rng() {
                let fail_at: usize = kani::any();
                let err: u32 = kani::any();
                let mut src = TryBigSrc { inner: BigSrc::new(), fail_at, err };
                match <$Rng>::try_from_rng(&mut src) {
                    Ok(g) => {
                        assert!(fail_at >= 1);
                        assert!(src.inner.calls == 1 && src.inner.bytes == 256 * $NB);
                        assert!(fresh_from_stub(&g) && unsafe { INIT_ROUNDS } == 2);
                        let k: usize = kani::any();
                        kani::assume(k < 256);
                        let mut b = [0u8; 8];
                        let mut j = 0;
                        while j < $NB {
                            b[j] = src.inner.log[$NB * k + j];
                            j += 1;
                        }
                        assert!(key(k) as u64 == u64::from_le_bytes(b));
                    }
                    Err(e) => {
                        assert!(fail_at == 0 && e == crate::src_rng::SrcError(err));
                        assert!(unsafe { INIT_CALLS } == 0 && src.inner.bytes == 0);
                    }
                }
                kani::cover!(fail_at == 0, "source fails");
                kani::cover!(fail_at > 0, "source works");
            }
        }
    };
}
isaac_seeding!(seed32, rand_isaac::isaac::IsaacCore, rand_isaac::IsaacRng, u32, 4, 8, rand_isaac::isaac::IsaacCore::init, from_seed);
isaac_seeding!(seed64, rand_isaac::isaac64::Isaac64Core, rand_isaac::Isaac64Rng, u64, 8, 4, rand_isaac::isaac64::Isaac64Core::init, from_seed);

// ============================================================ clone and ==
macro_rules! isaac_clone_eq {
    ($m:ident, $Core:ty, $Rng:ty, $W:ident, $stub:path) => {
        pub mod $m {
            use super::*;
            fn arbitrary_core() -> $Core {
                let mut c = <$Core>::verif_zeroed();
                let mut i = 0;
                while i < 256 {
                    c.verif_set_mem(i, kani::any());
                    i += 1;
                }
                c.verif_set_abc(kani::any(), kani::any(), kani::any());
                c
            }

            /// Core ==: equal exactly when memory and a, b, c are equal.
            #[kani::proof]
            #[kani::unwind(2060)]
            pub fn core_eq_fields() {
                let a = arbitrary_core();
                let b = arbitrary_core();
                let k: usize = kani::any();
                kani::assume(k < 256);
                if a == b {
                    assert!(a.verif_mem(k) == b.verif_mem(k) && a.verif_abc() == b.verif_abc());
                }
                if a.verif_mem(k) != b.verif_mem(k) || a.verif_abc() != b.verif_abc() {
                    assert!(a != b);
                }
                assert!(a == a);
                kani::cover!(k == 255 && a.verif_mem(k) != b.verif_mem(k), "differ in the last word");
                kani::cover!(a.verif_abc().2 != b.verif_abc().2, "differ in c");
            }

            /// Clone of the wrapper at every read position: same core fields,
            /// same index, and the next reads agree (buffer cloned too).
            #[kani::proof]
            #[kani::unwind(2060)]
            #[kani::stub(<$Core as rand_core::block::BlockRngCore>::generate, $stub)]
            pub fn clone() {
                let mut g = <$Rng>::verif_from_core(arbitrary_core());
                let pos: usize = kani::any();
                // stay inside the block: the stubbed generate returns fresh
                // words per call, so a refill would (rightly) differ
                kani::assume(pos < 250);
                g.verif_inner_mut().generate_and_set(pos);
                if kani::any() {
                    let _ = g.next_u32();
                }
                let mut c = g.clone();
                assert!(c.verif_inner().index() == g.verif_inner().index());
                let k: usize = kani::any();
                kani::assume(k < 256);
                assert!(c.verif_inner().core.verif_mem(k) == g.verif_inner().core.verif_mem(k));
                assert!(c.verif_inner().core.verif_abc() == g.verif_inner().core.verif_abc());
                assert!(c.verif_inner().core == g.verif_inner().core);
                assert!(c.next_u32() == g.next_u32());
                assert!(c.next_u64() == g.next_u64());
                assert!(c.verif_inner().index() == g.verif_inner().index());
            }
        }
    };
}
isaac_clone_eq!(cl32, rand_isaac::isaac::IsaacCore, rand_isaac::IsaacRng, u32, crate::c05_block::isaac::gen_stub);
isaac_clone_eq!(cl64, rand_isaac::isaac64::Isaac64Core, rand_isaac::Isaac64Rng, u64, crate::c05_block::isaac64::gen_stub);

// ============================================================ init vs randinit()
// The same UF-cut on the 24 (ISAAC) / 24 (ISAAC-64: 16 adds + 8 subs)
// additions per block of 8 words. The shadow state S[8] starts from the golden
// ratio mixed four times (so the eight literals in the code are checked too).
pub mod init32 {
    use super::*;
    use rand_isaac::isaac::IsaacCore;

    static mut N: usize = 0;
    static mut OK: bool = true;
    static mut S: [u32; 8] = [0; 8];
    static mut M: [u32; 256] = [0; 256];
    static mut PASSES: usize = 2;

    fn pair(a: u32, b: u32, e1: u32, e2: u32) -> bool {
        (a == e1 && b == e2) || (a == e2 && b == e1)
    }

    #[allow(static_mut_refs)]
    fn add_cut(a: u32, b: u32) -> u32 {
        unsafe {
            let r: u32 = kani::any();
            let n = N;
            N += 1;
            if n >= PASSES * 32 * 24 {
                OK = false;
                return r;
            }
            let blk = (n / 24) % 32;
            let k = n % 24;
            if k < 8 {
                // a += mem[i], ..., h += mem[i+7]
                OK &= pair(a, b, S[k], M[8 * blk + k]);
                S[k] = r;
            } else {
                // line j of mix: s[j] ^= shifted s[j+1]; s[j+3] += s[j]; s[j+1] += s[j+2]
                let j = (k - 8) / 2;
                if (k - 8) % 2 == 0 {
                    let (left, sh) = ri::MIX32_SHIFT[j];
                    let v = S[(j + 1) % 8];
                    S[j] ^= if left { v << sh } else { v >> sh };
                    OK &= pair(a, b, S[(j + 3) % 8], S[j]);
                    S[(j + 3) % 8] = r;
                } else {
                    OK &= pair(a, b, S[(j + 1) % 8], S[(j + 2) % 8]);
                    S[(j + 1) % 8] = r;
                }
                if k == 23 {
                    let mut q = 0;
                    while q < 8 {
                        M[8 * blk + q] = S[q];
                        q += 1;
                    }
                }
            }
            r
        }
    }

    #[allow(static_mut_refs)]
    fn check(core: &IsaacCore, passes: usize) {
        unsafe {
            assert!(N == passes * 32 * 24);
            assert!(OK);
            let k: usize = kani::any();
            kani::assume(k < 256);
            assert!(core.verif_mem(k) == M[k]);
            assert!(core.verif_abc() == (0, 0, 0));
        }
    }

    /// Two passes over an arbitrary 256-word key (the from_rng route):
    /// Jenkins' randinit(TRUE).
    #[kani::proof]
    #[kani::unwind(1030)]
    #[kani::stub(u32::wrapping_add, add_cut)]
    #[allow(static_mut_refs)]
    pub fn two_pass() {
        let mut src = BigSrc::new();
        unsafe {
            S = ri::golden32();
            PASSES = 2;
        }
        // the key as the source will deliver it (little-endian words)
        let core = {
            let c = IsaacCore::from_rng(&mut KeySrc32 { inner: &mut src });
            c
        };
        check(&core, 2);
    }

    /// A source that also loads the stub's shadow memory with the words it delivers.
    struct KeySrc32<'a> {
        inner: &'a mut BigSrc,
    }
    impl<'a> RngCore for KeySrc32<'a> {
        fn next_u32(&mut self) -> u32 {
            self.inner.next_u32()
        }
        fn next_u64(&mut self) -> u64 {
            self.inner.next_u64()
        }
        #[allow(static_mut_refs)]
        fn fill_bytes(&mut self, dest: &mut [u8]) {
            self.inner.fill_bytes(dest);
            let mut i = 0;
            while i < 256 && 4 * i + 3 < dest.len() {
                unsafe {
                    M[i] = u32::from_le_bytes([dest[4 * i], dest[4 * i + 1], dest[4 * i + 2], dest[4 * i + 3]]);
                }
                i += 1;
            }
        }
    }

    /// One pass over the key (x in words 0 and 1, zeros elsewhere): the
    /// seed_from_u64 route; x = 0 is Jenkins' generator used unseeded.
    #[kani::proof]
    #[kani::unwind(260)]
    #[kani::stub(u32::wrapping_add, add_cut)]
    #[allow(static_mut_refs)]
    pub fn one_pass() {
        let x: u64 = kani::any();
        unsafe {
            S = ri::golden32();
            PASSES = 1;
            M[0] = x as u32;
            M[1] = (x >> 32) as u32;
        }
        let core = IsaacCore::seed_from_u64(x);
        check(&core, 1);
        kani::cover!(x == 0, "unseeded reference generator");
    }
}

pub mod init64 {
    use super::*;
    use rand_isaac::isaac64::Isaac64Core;

    static mut N: usize = 0;
    static mut OK: bool = true;
    static mut S: [u64; 8] = [0; 8];
    static mut M: [u64; 256] = [0; 256];
    static mut PASSES: usize = 2;

    fn pair(a: u64, b: u64, e1: u64, e2: u64) -> bool {
        (a == e1 && b == e2) || (a == e2 && b == e1)
    }

    // calls per block: 8 adds (key), then per mix line j: one sub, one add
    #[allow(static_mut_refs)]
    fn step(is_sub: bool, a: u64, b: u64) -> u64 {
        unsafe {
            let r: u64 = kani::any();
            let n = N;
            N += 1;
            if n >= PASSES * 32 * 24 {
                OK = false;
                return r;
            }
            let blk = (n / 24) % 32;
            let k = n % 24;
            if k < 8 {
                OK &= !is_sub && pair(a, b, S[k], M[8 * blk + k]);
                S[k] = r;
            } else {
                let j = (k - 8) / 2;
                if (k - 8) % 2 == 0 {
                    // s[j] -= s[j+4]
                    OK &= is_sub && a == S[j] && b == S[(j + 4) % 8];
                    S[j] = r;
                    // s[j+5] ^= shifted s[j+7]
                    let (left, sh) = ri::MIX64_SHIFT[j];
                    let v = S[(j + 7) % 8];
                    S[(j + 5) % 8] ^= if left { v << sh } else { v >> sh };
                } else {
                    // s[j+7] += s[j]
                    OK &= !is_sub && pair(a, b, S[(j + 7) % 8], S[j]);
                    S[(j + 7) % 8] = r;
                }
                if k == 23 {
                    let mut q = 0;
                    while q < 8 {
                        M[8 * blk + q] = S[q];
                        q += 1;
                    }
                }
            }
            r
        }
    }
    fn add_cut(a: u64, b: u64) -> u64 {
        step(false, a, b)
    }
    fn sub_cut(a: u64, b: u64) -> u64 {
        step(true, a, b)
    }

    #[allow(static_mut_refs)]
    fn check(core: &Isaac64Core, passes: usize) {
        unsafe {
            assert!(N == passes * 32 * 24);
            assert!(OK);
            let k: usize = kani::any();
            kani::assume(k < 256);
            assert!(core.verif_mem(k) == M[k]);
            assert!(core.verif_abc() == (0, 0, 0));
        }
    }

    struct KeySrc64<'a> {
        inner: &'a mut BigSrc,
    }
    impl<'a> RngCore for KeySrc64<'a> {
        fn next_u32(&mut self) -> u32 {
            self.inner.next_u32()
        }
        fn next_u64(&mut self) -> u64 {
            self.inner.next_u64()
        }
        #[allow(static_mut_refs)]
        fn fill_bytes(&mut self, dest: &mut [u8]) {
            self.inner.fill_bytes(dest);
            let mut i = 0;
            while i < 256 && 8 * i + 7 < dest.len() {
                let mut b = [0u8; 8];
                let mut j = 0;
                while j < 8 {
                    b[j] = dest[8 * i + j];
                    j += 1;
                }
                unsafe {
                    M[i] = u64::from_le_bytes(b);
                }
                i += 1;
            }
        }
    }

    #[kani::proof]
    #[kani::unwind(2060)]
    #[kani::stub(u64::wrapping_add, add_cut)]
    #[kani::stub(u64::wrapping_sub, sub_cut)]
    #[allow(static_mut_refs)]
    pub fn two_pass() {
        let mut src = BigSrc::new();
        unsafe {
            S = ri::golden64();
            PASSES = 2;
        }
        let core = Isaac64Core::from_rng(&mut KeySrc64 { inner: &mut src });
        check(&core, 2);
    }

    #[kani::proof]
    #[kani::unwind(260)]
    #[kani::stub(u64::wrapping_add, add_cut)]
    #[kani::stub(u64::wrapping_sub, sub_cut)]
    #[allow(static_mut_refs)]
    pub fn one_pass() {
        let x: u64 = kani::any();
        unsafe {
            S = ri::golden64();
            PASSES = 1;
            M[0] = x;
        }
        let core = Isaac64Core::seed_from_u64(x);
        check(&core, 1);
        kani::cover!(x == 0, "unseeded reference generator");
    }
}
