//! C07 - linear engines: the solver part. For every linear generator type
//!   lin:  step(a ^ b) == step(a) ^ step(b) for all a, b  (so the transition is
//!         the bit matrix M whose columns are the images of the basis states,
//!         which the native helper extracts from the real code),
//!   inj:  a != b  =>  step(a) != step(b), and step(s) == 0 => s == 0.
//! The exact order of M (2^n - 1) is then a certificate on constants (vlib/gf2.py).
use rand_core::RngCore;

macro_rules! c07_type {
    ($m:ident, $T:ty, $W:ident, $N:expr, $SB:expr, $native:ident, $refn:path, $seedk:ident, $half:ident, $kind:ident) => {
        pub mod $m {
            use super::*;
            fn step(s: [$W; $N]) -> [$W; $N] {
                let mut g = <$T>::verif_from_state(s);
                let _ = g.$native();
                g.verif_state()
            }

            #[kani::proof]
            pub fn lin() {
                let a: [$W; $N] = kani::any();
                let b: [$W; $N] = kani::any();
                let mut x = [0 as $W; $N];
                let mut i = 0;
                while i < $N {
                    x[i] = a[i] ^ b[i];
                    i += 1;
                }
                let (sa, sb, sx) = (step(a), step(b), step(x));
                let mut i = 0;
                while i < $N {
                    assert!(sx[i] == sa[i] ^ sb[i]);
                    i += 1;
                }
                kani::cover!(a[0] != b[0], "distinct");
            }

            #[kani::proof]
            pub fn inj() {
                let a: [$W; $N] = kani::any();
                let b: [$W; $N] = kani::any();
                let mut diff = false;
                let mut i = 0;
                while i < $N {
                    diff |= a[i] != b[i];
                    i += 1;
                }
                kani::assume(diff);
                let (sa, sb) = (step(a), step(b));
                let mut sdiff = false;
                let mut az = true;
                let mut saz = true;
                let mut i = 0;
                while i < $N {
                    sdiff |= sa[i] != sb[i];
                    az &= a[i] == 0;
                    saz &= sa[i] == 0;
                    i += 1;
                }
                assert!(sdiff);
                assert!(!saz || az);
                kani::cover!(az, "zero state (fixed point)");
            }
        }
    };
}
xoshiro_table!(c07_type);
c07_type!(xorshift, rand_xorshift::XorShiftRng, u32, 4, 16, next_u32, crate::ref_xoshiro::xor128, arr, pair, lin);
