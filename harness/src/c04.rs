//! C04 - XorShiftRng equals Marsaglia's xor128 for every seed.
use rand_core::{RngCore, SeedableRng};
use rand_xorshift::XorShiftRng;

/// One step from every non-zero state: result = new w, state = (y, z, w, w').
#[kani::proof]
pub fn step() {
    let s: [u32; 4] = kani::any();
    kani::assume(s != [0; 4]);
    let mut g = XorShiftRng::verif_from_state(s);
    let out = g.next_u32();
    let (rs, ro) = crate::ref_xoshiro::xor128(s);
    assert!(out == ro);
    let st = g.verif_state();
    assert!(st[0] == rs[0] && st[1] == rs[1] && st[2] == rs[2] && st[3] == rs[3]);
    kani::cover!(s[0] >= 1 << 21 && s[3] >= 1 << 19, "high bits set");
}

/// from_seed decodes four little-endian words, verbatim for non-zero seeds.
#[kani::proof]
#[kani::unwind(18)]
pub fn seed() {
    let b: [u8; 16] = kani::any();
    let mut nz = false;
    let mut i = 0;
    while i < 16 {
        nz |= b[i] != 0;
        i += 1;
    }
    kani::assume(nz);
    let g = XorShiftRng::from_seed(b);
    let st = g.verif_state();
    let w = le_words!(u32, 4, b);
    assert!(st[0] == w[0] && st[1] == w[1] && st[2] == w[2] && st[3] == w[3]);
    kani::cover!(b[15] == 0xff, "top byte");
}

