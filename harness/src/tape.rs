//! A heap-free positional serde format ("tape"): every primitive is one u64
//! token in a fixed array; structs, tuples, newtypes and sequences are written
//! positionally (the shape of bincode's fixint encoding, without byte packing).
//! It lets the REAL derive-generated Serialize/Deserialize impls of the crates
//! (and rand_isaac's hand-written isaac_array_serde, and rand_core's derives for
//! BlockRng/BlockRng64) run under the model checker.
use core::fmt;
use serde::de::{self, DeserializeSeed, SeqAccess, Visitor};
use serde::ser::{self, Serialize};

pub const TAPE: usize = 560;

#[derive(Debug, Clone, Copy, PartialEq, Eq)]
pub struct TapeError;
impl fmt::Display for TapeError {
    fn fmt(&self, _f: &mut fmt::Formatter) -> fmt::Result {
        Ok(())
    }
}
impl std::error::Error for TapeError {}
impl ser::Error for TapeError {
    fn custom<T: fmt::Display>(_msg: T) -> Self {
        TapeError
    }
}
impl de::Error for TapeError {
    fn custom<T: fmt::Display>(_msg: T) -> Self {
        TapeError
    }
}

pub struct Tape {
    pub tok: [u64; TAPE],
    pub len: usize,
    pub pos: usize,
}
impl Tape {
    pub fn new() -> Self {
        Tape { tok: [0; TAPE], len: 0, pos: 0 }
    }
    fn push(&mut self, v: u64) -> Result<(), TapeError> {
        if self.len >= TAPE {
            return Err(TapeError);
        }
        self.tok[self.len] = v;
        self.len += 1;
        Ok(())
    }
    fn pop(&mut self) -> Result<u64, TapeError> {
        if self.pos >= self.len {
            return Err(TapeError);
        }
        let v = self.tok[self.pos];
        self.pos += 1;
        Ok(v)
    }
}

// ------------------------------------------------------------------ serializer
pub struct Ser<'a>(pub &'a mut Tape);

macro_rules! ser_prim {
    ($f:ident, $t:ty) => {
        fn $f(self, v: $t) -> Result<(), TapeError> {
            self.0.push(v as u64)
        }
    };
}

impl<'a, 'b> ser::Serializer for &'b mut Ser<'a> {
    type Ok = ();
    type Error = TapeError;
    type SerializeSeq = Self;
    type SerializeTuple = Self;
    type SerializeTupleStruct = Self;
    type SerializeTupleVariant = Self;
    type SerializeMap = Self;
    type SerializeStruct = Self;
    type SerializeStructVariant = Self;

    ser_prim!(serialize_bool, bool);
    ser_prim!(serialize_i8, i8);
    ser_prim!(serialize_i16, i16);
    ser_prim!(serialize_i32, i32);
    ser_prim!(serialize_i64, i64);
    ser_prim!(serialize_u8, u8);
    ser_prim!(serialize_u16, u16);
    ser_prim!(serialize_u32, u32);
    ser_prim!(serialize_u64, u64);
    fn serialize_f32(self, _v: f32) -> Result<(), TapeError> {
        Err(TapeError)
    }
    fn serialize_f64(self, _v: f64) -> Result<(), TapeError> {
        Err(TapeError)
    }
    fn serialize_char(self, v: char) -> Result<(), TapeError> {
        self.0.push(v as u64)
    }
    fn serialize_str(self, _v: &str) -> Result<(), TapeError> {
        Err(TapeError)
    }
    fn serialize_bytes(self, _v: &[u8]) -> Result<(), TapeError> {
        Err(TapeError)
    }
    fn serialize_none(self) -> Result<(), TapeError> {
        self.0.push(0)
    }
    fn serialize_some<T: ?Sized + Serialize>(self, v: &T) -> Result<(), TapeError> {
        self.0.push(1)?;
        v.serialize(self)
    }
    fn serialize_unit(self) -> Result<(), TapeError> {
        Ok(())
    }
    fn serialize_unit_struct(self, _n: &'static str) -> Result<(), TapeError> {
        Ok(())
    }
    fn serialize_unit_variant(self, _n: &'static str, i: u32, _v: &'static str) -> Result<(), TapeError> {
        self.0.push(i as u64)
    }
    fn serialize_newtype_struct<T: ?Sized + Serialize>(self, _n: &'static str, v: &T) -> Result<(), TapeError> {
        v.serialize(self)
    }
    fn serialize_newtype_variant<T: ?Sized + Serialize>(self, _n: &'static str, i: u32, _v: &'static str, v: &T) -> Result<(), TapeError> {
        self.0.push(i as u64)?;
        v.serialize(self)
    }
    fn serialize_seq(self, len: Option<usize>) -> Result<Self, TapeError> {
        match len {
            Some(n) => {
                self.0.push(n as u64)?;
                Ok(self)
            }
            None => Err(TapeError),
        }
    }
    fn serialize_tuple(self, _len: usize) -> Result<Self, TapeError> {
        Ok(self)
    }
    fn serialize_tuple_struct(self, _n: &'static str, _len: usize) -> Result<Self, TapeError> {
        Ok(self)
    }
    fn serialize_tuple_variant(self, _n: &'static str, i: u32, _v: &'static str, _len: usize) -> Result<Self, TapeError> {
        self.0.push(i as u64)?;
        Ok(self)
    }
    fn serialize_map(self, _len: Option<usize>) -> Result<Self, TapeError> {
        Err(TapeError)
    }
    fn serialize_struct(self, _n: &'static str, _len: usize) -> Result<Self, TapeError> {
        Ok(self)
    }
    fn serialize_struct_variant(self, _n: &'static str, i: u32, _v: &'static str, _len: usize) -> Result<Self, TapeError> {
        self.0.push(i as u64)?;
        Ok(self)
    }
    fn collect_str<T: ?Sized + fmt::Display>(self, _value: &T) -> Result<(), TapeError> {
        Err(TapeError)
    }
    fn is_human_readable(&self) -> bool {
        false
    }
}

macro_rules! ser_compound {
    ($tr:ident, $m:ident) => {
        impl<'a, 'b> ser::$tr for &'b mut Ser<'a> {
            type Ok = ();
            type Error = TapeError;
            fn $m<T: ?Sized + Serialize>(&mut self, v: &T) -> Result<(), TapeError> {
                v.serialize(&mut **self)
            }
            fn end(self) -> Result<(), TapeError> {
                Ok(())
            }
        }
    };
}
ser_compound!(SerializeSeq, serialize_element);
ser_compound!(SerializeTuple, serialize_element);
ser_compound!(SerializeTupleStruct, serialize_field);
ser_compound!(SerializeTupleVariant, serialize_field);

impl<'a, 'b> ser::SerializeStruct for &'b mut Ser<'a> {
    type Ok = ();
    type Error = TapeError;
    fn serialize_field<T: ?Sized + Serialize>(&mut self, _k: &'static str, v: &T) -> Result<(), TapeError> {
        v.serialize(&mut **self)
    }
    fn end(self) -> Result<(), TapeError> {
        Ok(())
    }
}
impl<'a, 'b> ser::SerializeStructVariant for &'b mut Ser<'a> {
    type Ok = ();
    type Error = TapeError;
    fn serialize_field<T: ?Sized + Serialize>(&mut self, _k: &'static str, v: &T) -> Result<(), TapeError> {
        v.serialize(&mut **self)
    }
    fn end(self) -> Result<(), TapeError> {
        Ok(())
    }
}
impl<'a, 'b> ser::SerializeMap for &'b mut Ser<'a> {
    type Ok = ();
    type Error = TapeError;
    fn serialize_key<T: ?Sized + Serialize>(&mut self, _k: &T) -> Result<(), TapeError> {
        Err(TapeError)
    }
    fn serialize_value<T: ?Sized + Serialize>(&mut self, _v: &T) -> Result<(), TapeError> {
        Err(TapeError)
    }
    fn end(self) -> Result<(), TapeError> {
        Err(TapeError)
    }
}

// ---------------------------------------------------------------- deserializer
pub struct De<'a>(pub &'a mut Tape);

struct Counted<'a, 'b> {
    de: &'b mut De<'a>,
    left: usize,
}
impl<'de, 'a, 'b> SeqAccess<'de> for Counted<'a, 'b> {
    type Error = TapeError;
    fn next_element_seed<T: DeserializeSeed<'de>>(&mut self, seed: T) -> Result<Option<T::Value>, TapeError> {
        if self.left == 0 {
            return Ok(None);
        }
        self.left -= 1;
        seed.deserialize(&mut *self.de).map(Some)
    }
    fn size_hint(&self) -> Option<usize> {
        Some(self.left)
    }
}

macro_rules! de_prim {
    ($f:ident, $visit:ident, $t:ty) => {
        fn $f<V: Visitor<'de>>(self, v: V) -> Result<V::Value, TapeError> {
            let t = self.0.pop()?;
            v.$visit(t as $t)
        }
    };
}

impl<'de, 'a, 'b> de::Deserializer<'de> for &'b mut De<'a> {
    type Error = TapeError;
    fn deserialize_any<V: Visitor<'de>>(self, _v: V) -> Result<V::Value, TapeError> {
        Err(TapeError)
    }
    fn deserialize_bool<V: Visitor<'de>>(self, v: V) -> Result<V::Value, TapeError> {
        let t = self.0.pop()?;
        match t {
            0 => v.visit_bool(false),
            1 => v.visit_bool(true),
            _ => Err(TapeError),
        }
    }
    de_prim!(deserialize_i8, visit_i8, i8);
    de_prim!(deserialize_i16, visit_i16, i16);
    de_prim!(deserialize_i32, visit_i32, i32);
    de_prim!(deserialize_i64, visit_i64, i64);
    de_prim!(deserialize_u8, visit_u8, u8);
    de_prim!(deserialize_u16, visit_u16, u16);
    de_prim!(deserialize_u32, visit_u32, u32);
    de_prim!(deserialize_u64, visit_u64, u64);
    fn deserialize_f32<V: Visitor<'de>>(self, _v: V) -> Result<V::Value, TapeError> {
        Err(TapeError)
    }
    fn deserialize_f64<V: Visitor<'de>>(self, _v: V) -> Result<V::Value, TapeError> {
        Err(TapeError)
    }
    fn deserialize_char<V: Visitor<'de>>(self, _v: V) -> Result<V::Value, TapeError> {
        Err(TapeError)
    }
    fn deserialize_str<V: Visitor<'de>>(self, _v: V) -> Result<V::Value, TapeError> {
        Err(TapeError)
    }
    fn deserialize_string<V: Visitor<'de>>(self, _v: V) -> Result<V::Value, TapeError> {
        Err(TapeError)
    }
    fn deserialize_bytes<V: Visitor<'de>>(self, _v: V) -> Result<V::Value, TapeError> {
        Err(TapeError)
    }
    fn deserialize_byte_buf<V: Visitor<'de>>(self, _v: V) -> Result<V::Value, TapeError> {
        Err(TapeError)
    }
    fn deserialize_option<V: Visitor<'de>>(self, v: V) -> Result<V::Value, TapeError> {
        match self.0.pop()? {
            0 => v.visit_none(),
            _ => v.visit_some(self),
        }
    }
    fn deserialize_unit<V: Visitor<'de>>(self, v: V) -> Result<V::Value, TapeError> {
        v.visit_unit()
    }
    fn deserialize_unit_struct<V: Visitor<'de>>(self, _n: &'static str, v: V) -> Result<V::Value, TapeError> {
        v.visit_unit()
    }
    fn deserialize_newtype_struct<V: Visitor<'de>>(self, _n: &'static str, v: V) -> Result<V::Value, TapeError> {
        v.visit_newtype_struct(self)
    }
    fn deserialize_seq<V: Visitor<'de>>(self, v: V) -> Result<V::Value, TapeError> {
        let n = self.0.pop()? as usize;
        v.visit_seq(Counted { de: self, left: n })
    }
    fn deserialize_tuple<V: Visitor<'de>>(self, len: usize, v: V) -> Result<V::Value, TapeError> {
        v.visit_seq(Counted { de: self, left: len })
    }
    fn deserialize_tuple_struct<V: Visitor<'de>>(self, _n: &'static str, len: usize, v: V) -> Result<V::Value, TapeError> {
        v.visit_seq(Counted { de: self, left: len })
    }
    fn deserialize_map<V: Visitor<'de>>(self, _v: V) -> Result<V::Value, TapeError> {
        Err(TapeError)
    }
    fn deserialize_struct<V: Visitor<'de>>(self, _n: &'static str, fields: &'static [&'static str], v: V) -> Result<V::Value, TapeError> {
        v.visit_seq(Counted { de: self, left: fields.len() })
    }
    fn deserialize_enum<V: Visitor<'de>>(self, _n: &'static str, _vs: &'static [&'static str], _v: V) -> Result<V::Value, TapeError> {
        Err(TapeError)
    }
    fn deserialize_identifier<V: Visitor<'de>>(self, _v: V) -> Result<V::Value, TapeError> {
        Err(TapeError)
    }
    fn deserialize_ignored_any<V: Visitor<'de>>(self, _v: V) -> Result<V::Value, TapeError> {
        Err(TapeError)
    }
    fn is_human_readable(&self) -> bool {
        false
    }
}

pub fn to_tape<T: Serialize>(x: &T) -> Result<Tape, TapeError> {
    let mut t = Tape::new();
    {
        let mut s = Ser(&mut t);
        x.serialize(&mut s)?;
    }
    Ok(t)
}

pub fn from_tape<T: for<'de> serde::Deserialize<'de>>(t: &mut Tape) -> Result<T, TapeError> {
    t.pos = 0;
    let mut d = De(t);
    let v = T::deserialize(&mut d)?;
    if d.0.pos != d.0.len {
        return Err(TapeError);
    }
    Ok(v)
}
