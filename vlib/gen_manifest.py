#!/usr/bin/env python3
"""Regenerates /verif/MANIFEST.json from the registry (claimed checks) and
NOT_APPLICABLE below."""
import json
import os
import subprocess
import sys

sys.path.insert(0, os.path.dirname(os.path.abspath(__file__)))
import registry  # noqa: E402

VERIF = registry.VERIF
ALL = ["C%02d" % i for i in range(1, 20)]

hooks_commits = subprocess.run(["git", "-C", "/repo", "log", "--format=%H %s"], stdout=subprocess.PIPE, text=True).stdout.splitlines()
hooks_commits = [l.split()[0] for l in hooks_commits if " verif hooks:" in l]

checks = []
for pid in ALL:
    if pid not in registry.PROPS or pid not in registry.CLAIMED:
        continue
    spec = registry.PROPS[pid]
    checks.append(dict(
        property_id=pid,
        quick_cmd="./check %s --tier quick" % pid,
        thorough_cmd="./check %s --tier thorough" % pid,
        evidence_file="/verif/evidence/%s.json" % pid,
        replay_cmd_template="./check %s --replay {path}" % pid,
        engine="kani-cbmc",
        level_claimed=dict(category=spec["level"], text=spec["level_text"], design_ref=spec.get("design_ref", "DESIGN.md section 5, " + pid)),
        level_note=spec["level_note"],
        technique=spec.get("technique", "bounded model checking of the compiled Rust code (Kani 0.68 -> CBMC 6.11 -> CaDiCaL) with symbolic inputs; UNSAT within stated bounds or a concrete counterexample replayed natively"),
    ))
na = [dict(property_id=p, reason=registry.NOT_APPLICABLE.get(p, "check not built yet (work in progress in this round)")) for p in ALL if p not in registry.PROPS or p not in registry.CLAIMED]
m = dict(
    version=1,
    setup_cmd="./check setup",
    hooks=dict(guard="rngs_verif", enable="RUSTFLAGS=\"--cfg rngs_verif\" (set by ./check for cargo kani and for the native helper; cfg-guarded add-only impl blocks appended to the crates' source files)",
               baseline_off_cmd="cd /repo && cargo test --workspace --no-fail-fast --offline",
               source_commits=hooks_commits, add_only=True),
    engines=[dict(name="kani-cbmc", path="/verif/harness", serves_properties=[c["property_id"] for c in checks],
                  kind_free_text="Kani 0.68.0 proof harnesses (out-of-tree crate with path dependencies on /repo) decided by CBMC 6.11.0 + CaDiCaL; runner /verif/check (Python) parses every CBMC check, replays counterexamples natively (cargo kani playback, dev and release profiles)"),
             dict(name="gf2-certificates", path="/verif/vlib/gf2.py", serves_properties=[p for p in ("C06", "C07", "C15") if p in registry.PROPS],
                  kind_free_text="exact GF(2) linear algebra on matrices that the solver has tied to the real code for all states (rank, repeated squaring, polynomial evaluation); two independent implementations")],
    checks=checks,
    notes="Technique family: solver-based checking of the real code. See DESIGN.md. Exit codes of ./check: 0 all obligations of the tier discharged; 1 violation (VIOLATION line, replay path); 2 inconclusive/machinery error (never a pass).",
    not_applicable=na,
)
json.dump(m, open(os.path.join(VERIF, "MANIFEST.json"), "w"), indent=1)
print("MANIFEST: %d checks, %d not_applicable" % (len(checks), len(na)))
