#!/usr/bin/env python3
"""./check <ID> [--tier quick|thorough] [--replay <path>]

Decides one property of /verif/properties.jsonl on /repo's current working
tree with the solver (Kani/CBMC over the compiled code), writes
/verif/evidence/<ID>.json and exits
  0  every obligation of the tier was discharged (KNOWN-FINDING lines possible)
  1  a violation was found (line `VIOLATION property=<id> replay=<path>`)
  2  machinery problem / inconclusive (never reported as success)
"""
import argparse
import json
import os
import re
import shutil
import subprocess
import sys
import time

sys.path.insert(0, os.path.dirname(os.path.abspath(__file__)))
import kani as K  # noqa: E402
import registry  # noqa: E402

VERIF = K.VERIF


def log(msg):
    print(msg, flush=True)


def load_known():
    p = os.path.join(VERIF, "known_findings.json")
    if not os.path.exists(p):
        return []
    return json.load(open(p)).get("findings", [])


def match_known(known, prop, harness, check):
    """A failing check is a known finding when an entry for this property
    matches the function and the description of the failing check (the role),
    not the solver's particular numbers."""
    for k in known:
        if k.get("status") != "open" or k["property"] != prop:
            continue
        if not re.search(k["function"], check.get("function", "")):
            continue
        if not re.search(k["description"], check.get("description", "")):
            continue
        if k.get("harness") and not re.search(k["harness"], harness):
            continue
        return k
    return None


def is_repo_check(c):
    f = c.get("location", {}).get("file", "") or ""
    return not f.startswith("src/")  # everything outside the harness crate


def classify(prop, spec, group, results, known, run_dir, tier):
    """Returns (obligations, discharged, violations, known_hits, errors, per_harness)."""
    viol, khits, errs, per = [], [], [], []
    for h in group.harnesses:
        r = results[h]
        checks = r["checks"]
        entry = dict(harness=h, group=group.name, status=r["status"], time_s=round(r["time_s"], 2),
                     n_checks=len(checks), stats=r.get("stats", {}))
        if r["status"] == "error":
            errs.append("%s: %s" % (h, r.get("reason")))
            entry["verdict"] = "inconclusive"
            per.append(entry)
            continue
        failed = [c for c in checks if c["status"] == "Failure"]
        if spec.get("repo_checks_only"):
            failed = [c for c in failed if is_repo_check(c)]
        unwind = [c for c in failed if "unwinding assertion" in c.get("description", "")]
        covers = [c for c in checks if c.get("category") == "cover"]
        bad_cov = [c for c in covers if c["status"] != "Satisfied"]
        undet = [c for c in checks if c["status"] in ("Undetermined", "SolverError")]
        entry["covers"] = len(covers)
        if unwind:
            errs.append("%s: unwinding bound too small (%s)" % (h, unwind[0]["location"]))
            entry["verdict"] = "bound-error"
        elif failed:
            unk = [c for c in failed if not match_known(known, prop, h, c)]
            for c in failed:
                k = match_known(known, prop, h, c)
                if k:
                    khits.append((k, h, c))
            if unk:
                viol.append((h, unk))
                entry["verdict"] = "violated"
                entry["failed_checks"] = [dict(function=c["function"], description=c["description"],
                                               location=c["location"]) for c in unk]
            else:
                entry["verdict"] = "known-finding"
        elif undet and not spec.get("repo_checks_only"):
            errs.append("%s: %d undetermined checks" % (h, len(undet)))
            entry["verdict"] = "inconclusive"
        elif bad_cov and not (failed or spec.get("repo_checks_only")):
            errs.append("%s: vacuity witness not satisfied: %s" % (h, bad_cov[0]["description"]))
            entry["verdict"] = "vacuous"
        else:
            entry["verdict"] = "discharged"
        per.append(entry)
    return viol, khits, errs, per


def make_replay(prop, group, harness, failed, run_dir):
    """Concrete playback + native replay. Returns (replay_dir, reproduced|None)."""
    rdir = os.path.join(K.WORK, "replays", prop, re.sub(r"\W", "_", harness))
    if os.path.exists(rdir):
        shutil.rmtree(rdir)
    os.makedirs(rdir)
    pb_harness = group.confirm.get(harness, harness)
    # concrete playback re-runs the harness; for harnesses with recording stubs
    # the generated unit test cannot be run natively, so it is only produced on
    # request (VERIF_PLAYBACK=1) or when a stub-free twin exists
    if group.native_replay or pb_harness != harness or os.environ.get("VERIF_PLAYBACK"):
        tests = K.playback_print(group, pb_harness, rdir)
    else:
        tests = []
    meta = dict(property=prop, harness=harness, group=group.name, features=list(group.features),
                failed_checks=[dict(function=c["function"], description=c["description"],
                                    location=c["location"]) for c in failed],
                stubs=list(group.stubs), native_replay=group.native_replay, playback_harness=pb_harness,
                how_to_replay="/verif/check %s --replay %s" % (prop, rdir))
    with open(os.path.join(rdir, "playback_tests.rs"), "w") as f:
        f.write("\n".join(tests))
    reproduced = None
    if not tests and pb_harness != harness:
        reproduced = False  # the stub-free twin found no counterexample: the abstraction's alarm is unconfirmed
    if tests and group.native_replay:
        verdict = K.native_replay(group, pb_harness, tests, rdir)
        meta["native"] = verdict
        reproduced = any(v == "reproduced" for v in verdict.values())
        if not reproduced and all(v == "build-error" for v in verdict.values()):
            reproduced = None
    meta["reproduced_natively"] = reproduced
    json.dump(meta, open(os.path.join(rdir, "replay.json"), "w"), indent=1)
    return rdir, reproduced


def do_replay(prop, path):
    meta = json.load(open(os.path.join(path, "replay.json")))
    spec = registry.PROPS[prop]
    group = None
    for tier in ("quick", "thorough"):
        for g in spec["tiers"][tier](registry):
            if g.name == meta["group"]:
                group = g
    if group is None:
        log("group %s not found" % meta["group"])
        return 2
    group.harnesses = [meta["harness"]]
    run_dir = os.path.join(VERIF, "work", "runs", prop + "_replay")
    results, wall, text = K.run_group(group, run_dir, log)
    r = results[meta["harness"]]
    failed = [c for c in r["checks"] if c["status"] == "Failure"]
    for c in failed:
        log("  failing check: %s | %s | %s" % (c["function"], c["description"], c["location"]))
    tests = open(os.path.join(path, "playback_tests.rs")).read()
    if group.native_replay and tests.strip():
        verdict = K.native_replay(group, meta.get("playback_harness", meta["harness"]), re.findall(r"(///.*?\n}\n)", tests, re.S) or [tests], path)
        log("  native replay: %s" % verdict)
    if failed:
        log("VIOLATION property=%s replay=%s" % (prop, path))
        return 1
    log("replay: harness passes on the current tree")
    return 0


def write_evidence(prop, tier, seed, spec, per, extra, wall, nviol, assumptions):
    obligations = len(per) + extra.get("extra_obligations", 0)
    discharged = sum(1 for e in per if e["verdict"] in ("discharged",)) + extra.get("extra_discharged", 0)
    functions = sorted(extra.get("functions", []))
    samples = []
    for e in per[:40]:
        samples.append(dict(harness=e["harness"], verdict=e["verdict"], checks=e["n_checks"],
                            solver_s=e.get("stats", {}).get("runtime_decision_procedure_s"),
                            symex_s=e.get("stats", {}).get("runtime_symex_s"),
                            vccs=e.get("stats", {}).get("vccs_remaining"),
                            wall_s=e["time_s"], quantified=spec.get("quantified", {}).get(e["harness"].split("::")[0], "")))
    samples += extra.get("samples", [])
    cov = dict(
        obligations=obligations,
        discharged=discharged,
        checker_cmd="cargo kani (Kani 0.68.0 / CBMC 6.11.0 / CaDiCaL) --exact --harness <h> on /verif/harness with RUSTFLAGS='--cfg rngs_verif'; " + extra.get("checker_extra", ""),
        trusted_base=spec.get("trusted_base", registry.DEFAULT_TRUSTED),
        explanation=spec["explanation"] + (" " + extra["explanation"] if extra.get("explanation") else ""),
        evaluations=obligations,
        distinct_nontrivial=max(discharged, 0),
        rule="one evaluation = one solver obligation (a Kani proof harness = one CBMC run over the compiled code of /repo with symbolic inputs, or one exact-algebra certificate step); distinct = distinct harness names; non-trivial = harness discharged with all vacuity witnesses (kani::cover!) satisfied",
        samples=samples,
        bounds=spec.get("bounds", ""),
        functions_encoded=functions,
        cbmc_checks=sum(e["n_checks"] for e in per),
        solver_time_s=round(sum((e.get("stats", {}).get("runtime_decision_procedure_s") or 0) for e in per), 2),
        symex_time_s=round(sum((e.get("stats", {}).get("runtime_symex_s") or 0) for e in per), 2),
        harnesses=[dict(harness=e["harness"], verdict=e["verdict"], wall_s=e["time_s"], checks=e["n_checks"]) for e in per],
        stubs=extra.get("stubs", []),
        exhaustive=False,
    )
    cov.update(extra.get("coverage_extra", {}))
    ev = dict(property_id=prop, tier=tier, seed=seed, level=spec["level"], coverage=cov,
              assumptions=assumptions, wall_s=round(wall, 1), violations=nviol)
    evdir = os.path.join(VERIF, "evidence") if K.REPO == "/repo" else os.path.join(K.WORK, "evidence")
    os.makedirs(evdir, exist_ok=True)
    tmp = os.path.join(evdir, prop + ".json.tmp")
    json.dump(ev, open(tmp, "w"), indent=1)
    os.replace(tmp, os.path.join(evdir, prop + ".json"))
    # keep a per-tier copy as well (the main file is rewritten by every run)
    tdir = os.path.join(evdir, "by_tier", tier)
    os.makedirs(tdir, exist_ok=True)
    shutil.copy(os.path.join(evdir, prop + ".json"), os.path.join(tdir, prop + ".json"))


def run_property(prop, tier, seed):
    t0 = time.time()
    spec = registry.PROPS[prop]
    known = load_known()
    run_dir = os.path.join(K.WORK, "runs", "%s_%s" % (prop, tier))
    if os.path.exists(run_dir):
        shutil.rmtree(run_dir)
    os.makedirs(run_dir)
    log("== %s (%s tier) on %s working tree" % (prop, tier, K.REPO))
    ctx = dict(prop=prop, tier=tier, seed=seed, run_dir=run_dir, log=log, errors=[], violations=[],
               extra=dict(functions=set(), samples=[], stubs=[]))
    # 1. reference-model self test + native helpers
    ok, msg = registry.native_selftest(ctx)
    if not ok:
        log("ERROR reference-model self-test failed: " + msg)
        return 2
    if spec.get("pre"):
        spec["pre"](ctx)
    groups = spec["tiers"][tier](registry)
    all_per, all_viol, all_khits = [], [], []
    errors = list(ctx["errors"])
    for g in groups:
        results, wall, text = K.run_group(g, run_dir, log)
        viol, khits, errs, per = classify(prop, spec, g, results, known, run_dir, tier)
        for h in g.harnesses:
            for c in results[h]["checks"]:
                fn = c.get("function", "")
                if fn and (fn.startswith("rand_") or fn.startswith("<rand_") or "rand_core" in fn):
                    ctx["extra"]["functions"].add(fn)
        ctx["extra"]["stubs"] += [s for s in g.stubs if s not in ctx["extra"]["stubs"]]
        all_per += per
        errors += errs
        all_khits += khits
        for (h, failed) in viol:
            all_viol.append((g, h, failed))
    if spec.get("post"):
        # certificates / audits do not depend on the harness verdicts
        spec["post"](ctx)
        errors += [e for e in ctx["errors"] if e not in errors]
    # 2. violations: replay before reporting
    reported = []
    for (g, h, failed) in all_viol:
        rdir, reproduced = make_replay(prop, g, h, failed, run_dir)
        if reproduced is False:
            errors.append("%s: solver counterexample did NOT reproduce natively (encoding or stub problem), see %s" % (h, rdir))
            continue
        reported.append((h, failed, rdir, reproduced))
    for v in ctx["violations"]:
        reported.append(v)
    seen = set()
    for (k, h, c) in all_khits:
        if k["id"] not in seen:
            seen.add(k["id"])
            log("KNOWN-FINDING: property=%s %s [%s]" % (prop, k["what"], k["id"]))
    wall = time.time() - t0
    assumptions = list(spec.get("assumptions", [])) + registry.COMMON_ASSUMPTIONS
    write_evidence(prop, tier, seed, spec, all_per, ctx["extra"], wall, len(reported), assumptions)
    for e in all_per:
        log("  %-52s %-13s %6.1fs %5d checks" % (e["harness"], e["verdict"], e["time_s"], e["n_checks"]))
    if reported:
        for (h, failed, rdir, reproduced) in reported:
            for c in failed[:5]:
                log("  FAILED %s: %s | %s | %s:%s" % (h, c["function"], c["description"],
                                                     c["location"].get("file"), c["location"].get("line")))
            log("VIOLATION property=%s replay=%s" % (prop, rdir))
        return 1
    if errors:
        for e in errors:
            log("ERROR (inconclusive, not a pass): " + e)
        return 2
    log("%s: %d/%d obligations discharged in %.0fs" % (prop, sum(1 for e in all_per if e["verdict"] == "discharged"), len(all_per), wall))
    return 0


def main():
    ap = argparse.ArgumentParser()
    ap.add_argument("prop")
    ap.add_argument("--tier", default=os.environ.get("VERIF_TIER", "quick"), choices=["quick", "thorough"])
    ap.add_argument("--replay")
    a = ap.parse_args()
    seed = int(os.environ.get("VERIF_SEED", "0") or 0)
    if a.prop == "setup":
        sys.exit(registry.setup(log))
    if a.prop not in registry.PROPS:
        log("unknown property " + a.prop)
        sys.exit(2)
    if a.replay:
        sys.exit(do_replay(a.prop, a.replay))
    sys.exit(run_property(a.prop, a.tier, seed))


if __name__ == "__main__":
    main()
