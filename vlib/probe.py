#!/usr/bin/env python3
"""probe.py <timeout> <jobs> <mem_gb> <harness>... [-- cbmc args]: run harnesses and print one line each."""
import sys, os
sys.path.insert(0, os.path.dirname(os.path.abspath(__file__)))
import kani as K
args = sys.argv[1:]
cb = []
if "--" in args:
    i = args.index("--"); cb = args[i+1:]; args = args[:i]
feat = []
if args[0].startswith("features="):
    feat = args[0].split("=")[1].split(","); args = args[1:]
t, j, m = int(args[0]), int(args[1]), int(args[2])
extra = ["--no-assertion-reach-checks"] if os.environ.get("NOREACH") else []
g = K.Group("probe_" + str(os.getpid() % 3) + os.environ.get("PROBE_TAG", ""), args[3:], jobs=j, timeout=t, mem_gb=m, cbmc_args=cb, features=feat, extra_kani=extra)
res, wall, text = K.run_group(g, os.path.join(K.WORK, "runs", "probe"), print)
for h in g.harnesses:
    r = res[h]
    failed = [c for c in r["checks"] if c["status"] == "Failure"]
    cov = [c for c in r["checks"] if c.get("category") == "cover" and c["status"] != "Satisfied"]
    st = r.get("stats") or {}
    print("%-50s %-8s %7.1fs symex=%.0fs solver=%.0fs failed=%d badcover=%d %s" % (h, r["status"], r["time_s"], st.get("runtime_symex_s", 0) or 0, st.get("runtime_decision_procedure_s", 0) or 0, len(failed), len(cov), r.get("reason", "")))
    for c in failed[:6]:
        print("     FAIL", c["function"], "|", c["description"], "|", c["location"].get("file"), c["location"].get("line"))
    for c in cov[:4]:
        print("     COVER", c["status"], c["description"])
