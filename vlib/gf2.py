"""Exact GF(2) algebra for the hybrid properties (C06, C07, C15).

Two independent implementations:
  * polynomial route (pure Python big integers): Berlekamp-Massey minimal
    polynomial of the matrix, primitivity test, J(x) == x^N mod f;
  * matrix route (numpy float64 matmul mod 2, exact for n <= 2^20): explicit
    powers of the bit matrix, order test, J(M) == M^N == real jump matrix.

Matrices are lists of n Python ints: cols[j] = image of basis state e_j (bit i
of the int = bit i of the state; state bit index = word*wordbits + bit).
"""
import numpy as np

# ---------------------------------------------------------------- factor data
# Prime factors of 2^n - 1 for n = 64, 128, 256, 512 (products of the Fermat
# numbers F0..F8); checked by multiplication and primality tests at run time.
FERMAT_FACTORS = {
    0: [3], 1: [5], 2: [17], 3: [257], 4: [65537],
    5: [641, 6700417],
    6: [274177, 67280421310721],
    7: [59649589127497217, 5704689200685129054721],
    8: [1238926361552897, 93461639715357977769163558199606896584051237541638188580280321],
}


def _is_probable_prime(n, bases=(2, 3, 5, 7, 11, 13, 17, 19, 23, 29, 31, 37, 41, 43, 47, 53, 59, 61, 67, 71,
                                 73, 79, 83, 89, 97, 101, 103, 107, 109, 113, 127, 131, 137, 139, 149, 151,
                                 157, 163, 167, 173)):
    if n < 2:
        return False
    for p in bases:
        if n % p == 0:
            return n == p
    d, s = n - 1, 0
    while d % 2 == 0:
        d //= 2
        s += 1
    for a in bases:
        x = pow(a, d, n)
        if x in (1, n - 1):
            continue
        for _ in range(s - 1):
            x = x * x % n
            if x == n - 1:
                break
        else:
            return False
    return True


def mersenne_factors(n):
    """Prime factors of 2^n - 1 for n a power of two <= 512, verified."""
    k = n.bit_length() - 1
    assert 1 << k == n and k <= 9
    fs = []
    for i in range(k):
        fs += FERMAT_FACTORS[i]
    prod = 1
    for p in fs:
        prod *= p
        if not _is_probable_prime(p):
            raise ValueError("factor list: %d is not prime" % p)
    if prod != (1 << n) - 1:
        raise ValueError("factor list does not multiply to 2^%d-1" % n)
    try:
        import sympy
        for p in fs:
            if not sympy.isprime(p):
                raise ValueError("sympy: %d is not prime" % p)
    except ImportError:
        pass
    return fs


# ------------------------------------------------------------ vector / matrix (ints)
def mat_vec(cols, v):
    r = 0
    j = 0
    while v:
        if v & 1:
            r ^= cols[j]
        v >>= 1
        j += 1
    return r


def mat_mul(a, b):
    """(a*b) e_j = a (b e_j)"""
    return [mat_vec(a, c) for c in b]


def identity(n):
    return [1 << j for j in range(n)]


def rank(cols, n):
    rows = list(cols)
    r = 0
    for bit in range(n):
        piv = None
        for i in range(r, len(rows)):
            if (rows[i] >> bit) & 1:
                piv = i
                break
        if piv is None:
            continue
        rows[r], rows[piv] = rows[piv], rows[r]
        for i in range(len(rows)):
            if i != r and (rows[i] >> bit) & 1:
                rows[i] ^= rows[r]
        r += 1
    return r


# ------------------------------------------------------------ polynomials over GF(2) (ints)
def pdeg(p):
    return p.bit_length() - 1


def pmod(a, f):
    df = pdeg(f)
    while a and pdeg(a) >= df:
        a ^= f << (pdeg(a) - df)
    return a


def pmulmod(a, b, f):
    r = 0
    while b:
        if b & 1:
            r ^= a
        b >>= 1
        a <<= 1
        if pdeg(a) >= pdeg(f):
            a ^= f
    return pmod(r, f)


def ppowmod_x(e, f):
    """x^e mod f"""
    result = 1
    base = 2
    while e:
        if e & 1:
            result = pmulmod(result, base, f)
        base = pmulmod(base, base, f)
        e >>= 1
    return result


def berlekamp_massey(bits):
    """Minimal LFSR connection polynomial C (int, bit i = coeff of x^i, C(0)=1)
    and length L for the binary sequence."""
    n = len(bits)
    c, b = 1, 1
    L, m = 0, -1
    s = 0  # sequence as int: bit i = bits[i]
    for i, bit in enumerate(bits):
        if bit:
            s |= 1 << i
    for i in range(n):
        # discrepancy d = s_i + sum_{j=1..L} c_j s_{i-j}
        d = 0
        cc = c
        j = 0
        while cc:
            if cc & 1 and i - j >= 0:
                d ^= (s >> (i - j)) & 1
            cc >>= 1
            j += 1
        if d:
            t = c
            c ^= b << (i - m)
            if 2 * L <= i:
                L = i + 1 - L
                m = i
                b = t
    return c, L


def min_poly(cols, n):
    """Minimal polynomial of the matrix (monic, int, bit i = coeff of x^i) if a
    projected Krylov sequence reveals one of full degree n; else (None, best L)."""
    best = 0
    for (v, ubit) in ((1, 0), (3, 1), ((1 << n) - 1, n - 1), (0x9E3779B97F4A7C15 % (1 << n) | 1, 2)):
        seq = []
        x = v
        for _ in range(2 * n + 4):
            seq.append((x >> ubit) & 1)
            x = mat_vec(cols, x)
        c, L = berlekamp_massey(seq)
        best = max(best, L)
        if L == n:
            # connection polynomial C(x) = 1 + c1 x + .. + cL x^L ; minimal poly = x^L C(1/x)
            f = 0
            for i in range(L + 1):
                if (c >> i) & 1:
                    f |= 1 << (L - i)
            return f, L
    return None, best


def poly_is_primitive(f, n, factors):
    """f of degree n is primitive iff ord(x mod f) = 2^n - 1."""
    if pdeg(f) != n or not (f & 1):
        return False, "degree/constant term"
    N = (1 << n) - 1
    if ppowmod_x(N, f) != 1:
        return False, "x^(2^n-1) != 1 mod f (reducible or not primitive)"
    for p in sorted(set(factors)):
        if ppowmod_x(N // p, f) == 1:
            return False, "order of x divides (2^n-1)/%d" % p
    return True, ""


def poly_of_words(words, wordbits):
    """Jump polynomial: bit b of word j is the coefficient of x^(j*wordbits+b)."""
    p = 0
    for j, w in enumerate(words):
        p |= w << (j * wordbits)
    return p


def solve_poly_for(cols, n, target_cols):
    """Find J (deg < n) with J(M) v = target v for v = e_0, if e_0 is cyclic."""
    v = 1
    kry = []
    x = v
    for _ in range(n):
        kry.append(x)
        x = mat_vec(cols, x)
    tv = mat_vec(target_cols, v)
    # solve sum_i j_i kry[i] = tv : gaussian elimination on columns kry
    rows = [(kry[i], 1 << i) for i in range(n)]
    piv = {}
    for (vec, comb) in rows:
        while vec:
            b = vec.bit_length() - 1
            if b in piv:
                pv, pc = piv[b]
                vec ^= pv
                comb ^= pc
            else:
                piv[b] = (vec, comb)
                break
    if len(piv) < n:
        return None
    sol = 0
    vec = tv
    while vec:
        b = vec.bit_length() - 1
        pv, pc = piv[b]
        vec ^= pv
        sol ^= pc
    return sol


def poly_eval_matrix(p, cols, n):
    """p(M) by Horner (int columns)."""
    acc = [0] * n
    ident = identity(n)
    for i in range(pdeg(p), -1, -1):
        acc = mat_mul(acc, cols) if any(acc) else acc
        if (p >> i) & 1:
            acc = [a ^ e for a, e in zip(acc, ident)]
    return acc


# ------------------------------------------------------------ matrix route (numpy)
def to_np(cols, n):
    a = np.zeros((n, n), dtype=np.float64)
    for j, c in enumerate(cols):
        i = 0
        while c:
            if c & 1:
                a[i, j] = 1.0
            c >>= 1
            i += 1
    return a


def np_mul(a, b):
    return np.mod(a @ b, 2.0)


def np_pow(a, e):
    n = a.shape[0]
    result = np.eye(n)
    base = a.copy()
    while e:
        if e & 1:
            result = np_mul(result, base)
        e >>= 1
        if e:
            base = np_mul(base, base)
    return result


def np_pow2k(a, k):
    r = a.copy()
    for _ in range(k):
        r = np_mul(r, r)
    return r


def np_poly_eval(p, a):
    n = a.shape[0]
    acc = np.zeros((n, n))
    eye = np.eye(n)
    for i in range(pdeg(p), -1, -1):
        acc = np_mul(acc, a)
        if (p >> i) & 1:
            acc = np.mod(acc + eye, 2.0)
    return acc


def np_order_is_full(a, n, factors):
    N = (1 << n) - 1
    eye = np.eye(n)
    if not np.array_equal(np_pow(a, N), eye):
        return False, "M^(2^n-1) != I"
    for p in sorted(set(factors)):
        if np_array_is_identity(np_pow(a, N // p)):
            return False, "M^((2^n-1)/%d) == I" % p
    return True, ""


def np_array_is_identity(a):
    return np.array_equal(a, np.eye(a.shape[0]))
