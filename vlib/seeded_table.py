#!/usr/bin/env python3
"""Rewrites the table between the SEEDED-TABLE markers in DESIGN.md from seeded/*/meta.json."""
import glob, json, os, re
V = os.path.dirname(os.path.dirname(os.path.abspath(__file__)))
rows = []
for f in sorted(glob.glob(os.path.join(V, "seeded", "*", "meta.json"))):
    m = json.load(open(f))
    runs = m.get("checks_run", [])
    det = []
    for r in runs:
        verdict = {1: "VIOLATION", 0: "missed (exit 0)", 2: "inconclusive (exit 2)"}.get(r["exit"], str(r["exit"]))
        first = ""
        for l in r.get("lines", []):
            if "FAILED" in l:
                first = l.split("FAILED", 1)[1].strip()
                first = first.split("|")[0].strip() + " | " + (first.split("|")[2].strip() if first.count("|") >= 2 else "")
                break
        det.append("%s %s: %s%s (%ss)" % (r["check"], r["tier"], verdict, (" - " + first[:110]) if first else "", r["seconds"]))
    rows.append("| `%s` | %s | %s | %s |" % (m["name"], m["breaks_property"], m["needs_to_manifest"].replace("|", "/"), "<br>".join(det) if det else "not run yet"))
table = "| seeded change | breaks | needs, to manifest | checks run against it -> outcome |\n|---|---|---|---|\n" + "\n".join(rows) + "\n"
p = os.path.join(V, "DESIGN.md")
s = open(p).read()
a = s.index("<!-- SEEDED-TABLE-BEGIN -->") + len("<!-- SEEDED-TABLE-BEGIN -->\n")
b = s.index("<!-- SEEDED-TABLE-END -->")
open(p, "w").write(s[:a] + table + s[b:])
print(len(rows), "rows")
