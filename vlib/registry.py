"""Property registry: which harnesses (solver obligations) decide which
property in which tier, with bounds, stubs and trusted base for the evidence."""
import os
import subprocess

from kani import Group, VERIF, WORK, GUARD_FLAGS

XO_LIN = ["xoroshiro64star", "xoroshiro64starstar", "xoroshiro128plus", "xoroshiro128plusplus",
          "xoroshiro128starstar", "xoshiro128plus", "xoshiro128plusplus", "xoshiro128starstar",
          "xoshiro256plus", "xoshiro256plusplus", "xoshiro256starstar", "xoshiro512plus",
          "xoshiro512plusplus", "xoshiro512starstar"]
XO_ALL = XO_LIN + ["splitmix64"]
XO_JUMP = XO_LIN[2:]

DEFAULT_TRUSTED = [
    "Kani 0.68.0 (MIR -> goto translation, dev-profile semantics with overflow checks)",
    "CBMC 6.11.0 bit-precise symbolic execution and CaDiCaL SAT solver",
    "rustc for the step from MIR to machine code",
    "reference models in /verif/harness/src/ref_*.rs (validated against published vectors at every run)",
    "the inductive composition argument written in DESIGN.md for this property",
]
COMMON_ASSUMPTIONS = [
    "hooks (cfg rngs_verif) are accessors/wrappers that add no logic",
    "Kani's unwinding assertions are on: a too-small loop bound is reported, never silently truncated",
]

_native_ok = None


def native_bin():
    return os.path.join(WORK, "td_native", "release", "rngs_native")


def build_native(log=None):
    env = dict(os.environ)
    env["RUSTFLAGS"] = GUARD_FLAGS
    env["CARGO_NET_OFFLINE"] = "true"
    p = subprocess.run(["cargo", "build", "--offline", "--release", "--target-dir", os.path.join(WORK, "td_native")],
                       cwd=os.path.join(VERIF, "native"), env=env, stdout=subprocess.PIPE,
                       stderr=subprocess.STDOUT, text=True)
    return p.returncode == 0, p.stdout[-2000:]


def native(args, timeout=600):
    p = subprocess.run([native_bin()] + args, stdout=subprocess.PIPE, stderr=subprocess.STDOUT,
                       text=True, timeout=timeout)
    return p.returncode, p.stdout


def native_selftest(ctx):
    ok, out = build_native()
    if not ok:
        return False, "native helper does not build against /repo: " + out
    rc, out = native(["selftest"])
    if rc != 0 or "SELFTEST-OK" not in out:
        return False, out
    return True, ""


def setup(log):
    """Build everything once (offline) so that the first check is not slowed
    down by cold caches. Not required for correctness: every check rebuilds
    what changed."""
    os.makedirs(WORK, exist_ok=True)
    ok, out = build_native()
    log("native helper: " + ("ok" if ok else "FAILED\n" + out))
    return 0 if ok else 1


def _c01(reg, tier):
    hs = []
    confirm = {}
    for m in XO_LIN:
        if m.startswith("xoroshiro64") and tier == "quick":
            hs += ["c01::%s_uf::step_uf" % m]
            confirm["c01::%s_uf::step_uf" % m] = "c01::%s::step" % m
        else:
            hs += ["c01::%s::step" % m]
        hs += ["c01::%s::seed" % m]
    hs += ["c01::splitmix64::step64_uf", "c01::splitmix64::step32_uf", "c01::splitmix64::seed"]
    confirm["c01::splitmix64::step64_uf"] = "c01::splitmix64::step64_real"
    confirm["c01::splitmix64::step32_uf"] = "c01::splitmix64::step32_real"
    return [Group("c01", hs, jobs=16, timeout=600, confirm=confirm,
                  stubs=["u64::wrapping_mul / u32::wrapping_mul as uninterpreted functions (Ackermann-consistent recording stub) in the SplitMix64 and xoroshiro64*/** step harnesses; applies to implementation and model alike"])]


PROPS = {}
NOT_APPLICABLE = {}

PROPS["C01"] = dict(
    level="proof",
    level_text="Bounded-model-checking proof (UNSAT from CBMC over the compiled code, unwinding assertions on) of one inductive step from every state and of from_seed decoding for every non-zero seed, for each of the 15 generators, against reference models transcribed from the published C sources; induction over steps (outside the solver) extends it to every stream position. Right level: the state space is 2^64..2^512 and the step is loop-free word arithmetic, the solver's home ground.",
    level_note="Trusted: Kani/CBMC/CaDiCaL, the reference models (self-tested against the published vectors at every run), the induction argument. SplitMix64's and xoroshiro64's large-constant multiplications are compared as an uninterpreted function in the quick tier (sound for equality; real-multiplier twins confirm failures and run in the thorough tier where they finish).",
    tiers=dict(quick=lambda reg: _c01(reg, "quick"), thorough=lambda reg: _c01(reg, "thorough")),
    explanation="Bounded model checking of the compiled code, one inductive step per generator from a fully symbolic state (all 2^64..2^512 states at once): real next_* vs the Blackman-Vigna reference model (output word and successor state), plus from_seed decoding for every non-zero seed. By induction over steps this covers every seed and every stream position.",
    bounds="no bound on state/seed values (full width); one step per query; loops in from_seed unwound to 66 with unwinding assertions",
    assumptions=["seed not all-zero for the 14 linear generators (C08 owns the zero seed)"],
)

PROPS["C04"] = dict(
    level="proof",
    level_text="Bounded-model-checking proof (UNSAT from CBMC over the compiled code) of one xor128 step from every non-zero 128-bit state and of from_seed decoding for every non-zero seed, against Marsaglia's published recurrence; induction over steps covers every position.",
    level_note="Trusted: Kani/CBMC/CaDiCaL, the xor128 reference model (self-tested against Marsaglia's default-seed outputs and rand's historical vector), the induction argument.",
    tiers=dict(quick=lambda reg: [Group("c04", ["c04::step", "c04::seed"], jobs=2, timeout=300)],
               thorough=lambda reg: [Group("c04", ["c04::step", "c04::seed"], jobs=2, timeout=300)]),
    explanation="Bounded model checking of the compiled code: one step of XorShiftRng::next_u32 from every non-zero state equals Marsaglia's xor128 step (result = new w, state = (y,z,w,w')), and from_seed decodes the four little-endian words verbatim for every non-zero seed; induction over steps gives every stream position.",
    bounds="no bound on state/seed values; one step per query",
    assumptions=["state/seed not all-zero (C08 owns the zero seed)"],
)
