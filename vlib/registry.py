"""Property registry: which harnesses (solver obligations) decide which
property in which tier, with bounds, stubs and trusted base for the evidence."""
import os
import subprocess

from kani import Group, VERIF, WORK, GUARD_FLAGS, REPO
import kani as _K

XO_LIN = ["xoroshiro64star", "xoroshiro64starstar", "xoroshiro128plus", "xoroshiro128plusplus",
          "xoroshiro128starstar", "xoshiro128plus", "xoshiro128plusplus", "xoshiro128starstar",
          "xoshiro256plus", "xoshiro256plusplus", "xoshiro256starstar", "xoshiro512plus",
          "xoshiro512plusplus", "xoshiro512starstar"]
XO_ALL = XO_LIN + ["splitmix64"]
XO_JUMP = XO_LIN[2:]

DEFAULT_TRUSTED = [
    "Kani 0.68.0 (MIR -> goto translation, dev-profile semantics with overflow checks)",
    "CBMC 6.11.0 bit-precise symbolic execution and CaDiCaL SAT solver",
    "rustc for the step from MIR to machine code",
    "reference models in /verif/harness/src/ref_*.rs (validated against published vectors at every run)",
    "the inductive composition argument written in DESIGN.md for this property",
]
COMMON_ASSUMPTIONS = [
    "hooks (cfg rngs_verif) are accessors/wrappers that add no logic",
    "Kani's unwinding assertions are on: a too-small loop bound is reported, never silently truncated",
]

_native_ok = None


def native_bin():
    return os.path.join(WORK, "td_native", "release", "rngs_native")


def build_native(log=None):
    env = dict(os.environ)
    env["RUSTFLAGS"] = GUARD_FLAGS
    env["CARGO_NET_OFFLINE"] = "true"
    p = subprocess.run(["cargo", "build", "--offline", "--release", "--target-dir", os.path.join(WORK, "td_native")],
                       cwd=(os.path.join(VERIF, "native") if REPO == "/repo" else _K._crate_dir("native")), env=env, stdout=subprocess.PIPE,
                       stderr=subprocess.STDOUT, text=True)
    return p.returncode == 0, p.stdout[-2000:]


def native(args, timeout=600):
    p = subprocess.run([native_bin()] + args, stdout=subprocess.PIPE, stderr=subprocess.STDOUT,
                       text=True, timeout=timeout)
    return p.returncode, p.stdout


def native_selftest(ctx):
    ok, out = build_native()
    if not ok:
        return False, "native helper does not build against /repo: " + out
    rc, out = native(["selftest"])
    if rc != 0 or "SELFTEST-OK" not in out:
        return False, out
    # generated inputs of the harness crate (jump polynomials derived from the real code)
    import hybrid
    ctx["jump_problems"] = hybrid.write_jump_polys()
    return True, ""


def setup(log):
    """Build everything once (offline) so that the first check is not slowed
    down by cold caches. Not required for correctness: every check rebuilds
    what changed."""
    os.makedirs(WORK, exist_ok=True)
    ok, out = build_native()
    log("native helper: " + ("ok" if ok else "FAILED\n" + out))
    return 0 if ok else 1


def _c01(reg, tier):
    hs = []
    confirm = {}
    for m in XO_LIN:
        if m.startswith("xoroshiro64") and tier == "quick":
            hs += ["c01::%s_uf::step_uf" % m]
            confirm["c01::%s_uf::step_uf" % m] = "c01::%s::step" % m
        else:
            hs += ["c01::%s::step" % m]
        hs += ["c01::%s::seed" % m]
    hs += ["c01::splitmix64::step64_uf", "c01::splitmix64::step32_uf", "c01::splitmix64::seed"]
    confirm["c01::splitmix64::step64_uf"] = "c01::splitmix64::step64_real"
    confirm["c01::splitmix64::step32_uf"] = "c01::splitmix64::step32_real"
    return [Group("c01", hs, jobs=16, timeout=600, confirm=confirm, stubs=[UF_STUB])]


# kani-driver buffers CBMC's messages; harnesses that unwind thousands of loop
# iterations emit gigabytes of "Unwinding loop" statistics lines at verbosity 9
# (kani-driver itself was OOM-killed at 32 GB, and still reached 42 GB at
# verbosity 7). Heavy-output groups run CBMC at verbosity 4 (results only): results are unaffected, per-harness symex/solver statistics are
# then not available (wall time still is).
QUIET = ("--verbosity", "4")

UF_STUB = "u64::wrapping_mul / u32::wrapping_mul replaced by a recording stub = uninterpreted function with Ackermann consistency (large-constant multiplications; applies to implementation and model alike; stub-free twins confirm failures)"
GEN_STUB = "<Core as BlockRngCore>::generate replaced by a recording stub returning arbitrary words (block contents are C02/C03's subject)"

PROPS = {}
NOT_APPLICABLE = {}


def both(f):
    return dict(quick=lambda reg: f("quick"), thorough=lambda reg: f("thorough"))


PROPS["C01"] = dict(
    level="proof",
    level_text="Bounded-model-checking proof (UNSAT from CBMC over the compiled code, unwinding assertions on) of one inductive step from every state and of from_seed decoding for every non-zero seed, for each of the 15 generators, against reference models transcribed from the published C sources; induction over steps (outside the solver) extends it to every stream position. Right level: the state space is 2^64..2^512 and the step is loop-free word arithmetic, the solver's home ground.",
    level_note="Trusted: Kani/CBMC/CaDiCaL, the reference models (self-tested against the published vectors at every run), the induction argument. SplitMix64's and xoroshiro64's large-constant multiplications are compared as an uninterpreted function in the quick tier (sound for equality; real-multiplier twins confirm failures and run in the thorough tier where they finish).",
    tiers=both(lambda t: _c01(None, t)),
    explanation="Bounded model checking of the compiled code, one inductive step per generator from a fully symbolic state (all 2^64..2^512 states at once): real next_* vs the Blackman-Vigna reference model (output word and successor state), plus from_seed decoding for every non-zero seed. By induction over steps this covers every seed and every stream position.",
    bounds="no bound on state/seed values (full width); one step per query; loops in from_seed unwound to 66 with unwinding assertions",
    assumptions=["seed not all-zero for the 14 linear generators (C08 owns the zero seed)"],
)

# ----------------------------------------------------------------------- C02
def _c02(tier):
    gs = [Group("c02_shape", ["c02::generate_seq", "c02::sixteen_seq", "c02::step_p", "c02::step_q", "c02::expand_placement"], jobs=5, timeout=1500, mem_gb=16,
                native_replay=False, extra_kani=["--no-assertion-reach-checks"],
                stubs=["Hc128Core::step_p / step_q replaced by recording stubs (indices logged, arbitrary return word) in generate_seq and sixteen_seq; the steps have their own stub-free harnesses",
                       "expand_placement: u32::wrapping_add replaced by a stub returning the step number (dataflow tags), Hc128Core::sixteen_steps replaced by a counting stub"])]
    if tier == "thorough":
        gs.append(Group("c02_expand", ["c02::expand_tagged", "c02::expand_panicfree"], cbmc_args=QUIET, jobs=1, timeout=3400, mem_gb=46, native_replay=False,
                        extra_kani=["--no-assertion-reach-checks"],
                        stubs=["expand_tagged: u32::wrapping_add replaced by a checking stub that returns a distinct concrete tag per call (seed symbolic): key/IV layout for all seeds + dataflow test of the recurrence", "Hc128Core::sixteen_steps replaced by a counting stub inside init"]))
    return gs


PROPS["C02"] = dict(
    level="proof",
    level_text="Decomposed bounded-model-checking proof over all table contents, indices and counters: step_p/step_q equal Wu's P/Q step for every 4 KiB table and every five in-range indices; generate() and sixteen_steps() issue exactly the 16 specification steps (phase, index tuples mod 512, order, result placement, counter) for every block counter over the whole usize range; the results of the key/IV expansion are stored at the right table positions and init runs exactly 64 warm-up blocks; (thorough) for every seed the initial 16 words are K K IV IV and - as a dataflow test with distinct concrete result tags, not a statement over all values - the operands of the 4 x 1264 additions of the expansion are those of Wu's recurrence. Composition into 'every key, IV and position' is an induction written in DESIGN.md.",
    level_note="OUTSIDE the solver claim: that the key/IV expansion's recurrence holds for ALL values (the UF-cut harnesses expand_operands_* exist but their SSA conversion exceeds 42 GB on this machine - Hc128Core's 1024-word table is above CBMC's array-flattening threshold); what is decided about the expansion is placement, key/IV layout for all seeds, and the recurrence's dataflow on one tagged run (thorough tier, 18 min). Everything after the expansion (every table state, step, block, counter) is decided for all values. Trusted: Kani/CBMC/CaDiCaL; the HC-128 reference model (self-tested on Wu's vectors 1 and 2); the composition argument. The hand-out order of the 16 buffered words is C05.",
    tiers=both(_c02),
    explanation="Solver obligations over the real code: (1) step_p/step_q vs Wu's step for ALL tables and index tuples incl. frame; (2) generate(): call shape for ALL counters (multiples of 16 over the full usize range) with the steps stubbed; (3) sixteen_steps(): same for the 64 initialisation blocks incl. table write-back; (4, thorough) init(): operands of every addition of the expansion are those of Wu's recurrence for ALL seeds, final table = W[256..1280], exactly 64 warm-up blocks from counter 0.",
    bounds="no bound on table contents, indices (< 512), counters; one block per query; expansion: all 1264 steps unrolled",
    assumptions=["counter1024 is a multiple of 16 (invariant established by init and preserved by generate; asserted by the code itself)"],
)

PROPS["C04"] = dict(
    level="proof",
    level_text="Bounded-model-checking proof (UNSAT from CBMC over the compiled code) of one xor128 step from every non-zero 128-bit state and of from_seed decoding for every non-zero seed, against Marsaglia's published recurrence; induction over steps covers every position.",
    level_note="Trusted: Kani/CBMC/CaDiCaL, the xor128 reference model (self-tested against Marsaglia's default-seed outputs and rand's historical vector), the induction argument.",
    tiers=both(lambda t: [Group("c04", ["c04::step", "c04::seed"], jobs=2, timeout=300)]),
    explanation="Bounded model checking of the compiled code: one step of XorShiftRng::next_u32 from every non-zero state equals Marsaglia's xor128 step (result = new w, state = (y,z,w,w')), and from_seed decodes the four little-endian words verbatim for every non-zero seed; induction over steps gives every stream position.",
    bounds="no bound on state/seed values; one step per query",
    assumptions=["state/seed not all-zero (C08 owns the zero seed)"],
)

# ----------------------------------------------------------------------- C05
def _hc_fill(tier):
    if tier == "quick":
        return ["c05_block::hc_fill::p%d_n%d" % (p, n) for p in (0, 13, 14, 15, 16) for n in (0, 1, 4, 5, 8, 9, 13)]
    return ["c05_block::hc_fill::p%d_n%d" % (p, n) for p in range(17) for n in range(22)]


def _isaac_fill(tier):
    if tier == "quick":
        return ["c05_block::isaac_fill::p%d_n%d" % (p, n) for p in (254, 255, 256) for n in (0, 5, 9)]
    return ["c05_block::isaac_fill::p%d_n%d" % (p, n) for p in (0, 1, 2, 250, 251, 252, 253, 254, 255, 256) for n in (0, 1, 3, 4, 5, 7, 8, 9, 12, 13, 16, 17, 21)]


def _isaac64_fill(tier):
    if tier == "quick":
        return ["c05_block::isaac64_fill::p%d_%s_n%d" % (p, h, n) for p in (255, 256) for h in ("w", "h") for n in (0, 9, 17)]
    return ["c05_block::isaac64_fill::p%d_%s_n%d" % (p, h, n) for p in (0, 1, 2, 250, 251, 252, 253, 254, 255, 256) for h in ("w", "h") for n in (0, 1, 4, 7, 8, 9, 15, 16, 17, 25, 33, 41)]


def _c05(tier):
    direct = []
    for m in XO_LIN + ["xorshift", "splitmix64"]:
        direct += ["c05::%s::width" % m, "c05::%s::fill" % m]
    blk = ["c05_block::hc::next", "c05_block::isaac::next"] + (["c05_block::isaac64::next"] if tier == "thorough" else ["c05_block::isaac64::next_end"])
    return [Group("c05_direct", direct, jobs=10, timeout=900, mem_gb=12, stubs=[UF_STUB + " (SplitMix64 fill only)"]),
            Group("c05_block", blk + _hc_fill(tier) + _isaac_fill(tier) + _isaac64_fill(tier), jobs=6, timeout=1800, mem_gb=16,
                  native_replay=False, stubs=[GEN_STUB]),
            Group("c05_jitter", ["jit::half::ops1", "jit::half::ops2", "jit::half::two_halves"] + (["jit::half::ops3"] if tier == "thorough" else []),
                  jobs=4, timeout=900, mem_gb=12, native_replay=False,
                  stubs=["JitterRng::gen_entropy replaced by a recording stub (one collection = one arbitrary 64-bit word); JitterRng's projections (low half, then high half of the same word; fill_bytes via next_u64/next_u32) are checked against that word stream"])]


PROPS["C05"] = dict(
    level="proof",
    level_text="Bounded-model-checking proof of the inductive step 'from every configuration, one arbitrary operation consumes the next whole native words and projects them as documented, leaving the generator where the native-width twin is': per generator type for the direct generators (symbolic state, symbolic fill length n <= 24), and over the real BlockRng/BlockRng64 code with arbitrary block contents for the buffered ones (symbolic position for next_u32/next_u64 incl. fresh/straddling/half-used; enumerated concrete (position, length) instances for fill_bytes).",
    level_note="Bounds: fill_bytes n <= 24 (direct), n <= 21 at every Hc128Rng position, ISAAC positions within 6 words of a block end or start (mid-block fill_bytes positions of ISAAC are outside the claim), n <= 41 for Isaac64Rng; longer buffers are outside the claim (the loop bodies are uniform in the iteration number). JitterRng's half rule is C16. Trusted: Kani/CBMC, the induction over operations.",
    tiers=both(_c05),
    explanation="Twin harnesses on the real code: generator g and twin t from the same symbolic state; g performs next_u32/next_u64/fill_bytes(n), t only native-width calls; asserted: documented projection byte for byte and equal final states. Buffered generators: real BlockRng code, generate() stubbed by a recording stub (arbitrary words), results compared against the recorded block stream, followed by one more native call that must return the word right after the consumed prefix.",
    bounds="fill_bytes length: n <= 24 symbolic (direct generators); concrete instances (positions x lengths, listed in the harness names) for buffered generators",
    assumptions=["BlockRng index is a reachable one (0..=len), set through the public generate_and_set or fresh"],
)

# ----------------------------------------------------------------------- C06 / C07
def _c07_groups(tier):
    hs = []
    for m in XO_LIN + ["xorshift"]:
        hs += ["c07::%s::lin" % m, "c07::%s::inj" % m]
    return [Group("c07", hs, jobs=16, timeout=600)]


def _c06_groups(tier):
    types = XO_JUMP if tier == "thorough" else [m for m in XO_JUMP if "512" not in m]
    hs = []
    for m in types:
        hs += ["c06::%s::jump" % m, "c06::%s::long_jump" % m]
    lin = ["c07::%s::lin" % m for m in XO_JUMP]
    return [Group("c06_shape", hs, jobs=16, timeout=1800, mem_gb=12, native_replay=False,
                  stubs=["<T as RngCore>::next_u64 / next_u32 replaced inside jump() by a stub that overwrites the state with an arbitrary value and accumulates the pre-call state into a shadow accumulator under the derived polynomial J"]),
            Group("c06_lin", lin, jobs=12, timeout=600)]


def _c06_post(ctx):
    import hybrid
    thorough = ctx["tier"] == "thorough"
    for (name, what), why in ctx.get("jump_problems", {}).items():
        ctx["errors"].append("jump polynomial of %s::%s could not be derived: %s" % (name, what, why))
    for name in XO_JUMP:
        for what in ("jump", "long_jump"):
            ok, d = hybrid.check_jump(name, what, thorough)
            ctx["extra"]["samples"].append(dict(certificate="jump", **{k: str(v) if isinstance(v, int) and v > 2**53 else v for k, v in d.items()}))
            ctx["extra"]["extra_obligations"] = ctx["extra"].get("extra_obligations", 0) + 1
            if ok:
                ctx["extra"]["extra_discharged"] = ctx["extra"].get("extra_discharged", 0) + 1
            else:
                rdir = _write_cert_replay(ctx, "C06", "%s_%s" % (name, what), d)
                ctx["violations"].append(("certificate %s::%s" % (name, what), [dict(function="rand_xoshiro::%s::%s" % (name, what), description=d.get("reason", "jump certificate failed"), location={})], rdir, True))
    ctx["extra"]["checker_extra"] = "exact GF(2) certificates: vlib/hybrid.py check_jump (polynomial route: J(x) == x^(2^k) mod charpoly; matrix route: real jump matrix == M^(2^k) by repeated squaring)"


def _write_cert_replay(ctx, prop, name, d):
    import json
    rdir = os.path.join(WORK, "replays", prop, "cert_" + name)
    os.makedirs(rdir, exist_ok=True)
    json.dump(dict(property=prop, kind="certificate", detail={k: (str(v) if isinstance(v, int) else v) for k, v in d.items()},
                   how_to_replay="/verif/check %s (matrices are re-extracted from the real build; the witness basis state and the real jump's image are in detail)" % prop),
              open(os.path.join(rdir, "replay.json"), "w"), indent=1)
    return rdir


def _c07_post(ctx):
    import hybrid
    thorough = ctx["tier"] == "thorough"
    for name in XO_LIN + ["xorshift"]:
        ok, d = hybrid.check_period(name, thorough)
        ctx["extra"]["samples"].append(dict(certificate="period", **d))
        ctx["extra"]["extra_obligations"] = ctx["extra"].get("extra_obligations", 0) + 1
        if ok:
            ctx["extra"]["extra_discharged"] = ctx["extra"].get("extra_discharged", 0) + 1
        else:
            rdir = _write_cert_replay(ctx, "C07", name, d)
            ctx["violations"].append(("certificate %s" % name, [dict(function="rand_xoshiro::%s step" % name, description=d.get("reason", "period certificate failed"), location={})], rdir, True))
    ctx["extra"]["checker_extra"] = "exact GF(2) certificates: vlib/hybrid.py check_period (Berlekamp-Massey characteristic polynomial of the extracted matrix, primitivity test against the verified factorisation of 2^n-1; numpy matrix-power route)"


HYBRID_TRUST = DEFAULT_TRUSTED + ["exact GF(2) routines in vlib/gf2.py (two independent routes that must agree)",
                                  "prime factorisation of 2^n-1 (checked by multiplication, Miller-Rabin on 40 bases and sympy.isprime at run time)"]

PROPS["C06"] = dict(
    level="other",
    level_text="Hybrid: the solver proves for ALL states (a) the one-step transition is GF(2)-linear (so it equals the bit matrix M extracted from the real build on basis states) and (b) jump()/long_jump() compute XOR_{i in J} T^i(s) for arbitrary visited states (next_* stubbed), with J derived from the real code; the remaining statement J(M) = M^(2^(n/2)) resp. M^(2^(3n/4)) has no quantifier over inputs and is checked by exact GF(2) algebra in two independent ways. Pure XOR networks of this depth are the one thing CDCL cannot decide, hence level 'other'.",
    level_note="Solver-decided: linearity of the step and the shape of jump for all states (all 24 functions in the thorough tier; the 128- and 256-bit types in the quick tier). Exact algebra on constants: polynomial identity mod the characteristic polynomial and explicit matrix powers. Trusted: Kani/CBMC, gf2.py, numpy float64 matmul exactness for n <= 512.",
    tiers=both(_c06_groups), post=_c06_post, trusted_base=HYBRID_TRUST,
    explanation="(1) c07::<T>::lin: step(a^b) = step(a)^step(b) for all a,b => step = M (native basis images). (2) c06::<T>::jump/long_jump: with the generator's own next_* replaced by a stub writing arbitrary successor states v_i, jump() makes exactly n calls and ends in XOR_{i in J} v_i, for all s and all v_i => jump = J(T). (3) certificate: J(x) == x^(2^k) mod charpoly(M) and matrix(real jump) == M^(2^k).",
    bounds="n = 128/256/512 loop iterations fully unrolled (unwinding assertions on); no bound on states",
)

PROPS["C07"] = dict(
    level="other",
    level_text="Hybrid: the solver proves for ALL states of each of the 15 linear generator types that the transition is GF(2)-linear and injective and fixes only the zero state; the period statement is then a statement about one concrete bit matrix M (extracted from the real build): its characteristic polynomial (Berlekamp-Massey, degree n) is primitive, i.e. M has order exactly 2^n-1, which makes the non-zero states one cycle. Exact algebra, two routes.",
    level_note="Solver-decided for all states: linearity, injectivity, zero only from zero. Exact on constants: primitivity of the characteristic polynomial against the verified factorisation of 2^n-1 (polynomial route, all types every run) and explicit M^(2^n-1) = I, M^((2^n-1)/p) != I (matrix route; n <= 128 in the quick tier, all in the thorough tier).",
    tiers=both(_c07_groups), post=_c07_post, trusted_base=HYBRID_TRUST,
    explanation="c07::<T>::lin and ::inj (solver, all states) + period certificate per type: rank, minimal polynomial degree n, primitivity, order of M.",
    bounds="none on states; certificates are exact",
)

# ----------------------------------------------------------------------- C08 / C09
def _c08(tier):
    hs = []
    for m in XO_LIN:
        hs += ["c08::%s::from_seed" % m, "c08::%s::u64_nonzero" % m, "c08::%s::from_rng" % m, "c08::%s::try_from_rng" % m]
    hs += ["c08::xorshift::from_seed", "c08::xorshift::u64_route_uf", "c08::xorshift::from_rng", "c08::xorshift::try_from_rng"]
    return [Group("c08", hs, jobs=16, timeout=900, mem_gb=12, stubs=[UF_STUB + " (XorShiftRng PCG32 route only)"],
                  confirm={"c08::xorshift::u64_route_uf": "c08::xorshift::u64_route_real"})]


PROPS["C08"] = dict(
    level="proof",
    level_text="Bounded-model-checking proof, per linear generator type and through the public constructors only, for ALL seeds / u64 arguments / source byte streams: the state is never all-zero; non-zero seeds are used verbatim (little-endian words, hence injective); the zero seed gives seed_from_u64(0) (xoshiro family) resp. four words 0x0BAD5EED (XorShiftRng); an all-zero block from a source is remapped (xoshiro) or redrawn (XorShiftRng).",
    level_note="Bound: XorShiftRng's redraw loop is explored for at most 4 leading all-zero blocks. seed_from_u64 != 0 uses the real SplitMix64 multiplier (unit propagation from the LSB). Trusted: Kani/CBMC.",
    tiers=both(_c08),
    explanation="Harnesses c08::<T>::{from_seed,u64_nonzero,from_rng,try_from_rng} over the real constructors with symbolic seed bytes, symbolic u64, and a harness source RNG whose every byte is symbolic (and which can be forced to deliver leading all-zero blocks).",
    bounds="XorShiftRng redraws: at most 4 leading all-zero blocks; everything else unbounded (full-width symbolic)",
)


def _c09(tier):
    hs = []
    confirm = {}
    for m in XO_LIN:
        hs += ["c08::%s::u64_route_uf" % m, "c08::%s::from_rng" % m, "c08::%s::try_from_rng" % m]
        confirm["c08::%s::u64_route_uf" % m] = "c08::%s::u64_route_real" % m
    hs += ["c08::xorshift::u64_route_uf", "c08::xorshift::from_rng", "c08::xorshift::try_from_rng"]
    confirm["c08::xorshift::u64_route_uf"] = "c08::xorshift::u64_route_real"
    return [Group("c09", hs, jobs=16, timeout=900, mem_gb=12, confirm=confirm, native_replay=False,
                  stubs=[UF_STUB, "<T as SeedableRng>::from_seed replaced by a recording stub in the u64-route harnesses (its behaviour is C08's from_seed harness)"])]


# ----------------------------------------------------------------------- JitterRng: C12..C16
JIT_STUBS = ["JitterRng::memaccess and JitterRng::lfsr_time replaced by recording stubs in the measure/collect/test_timer harnesses: they consume exactly one timer reading when var_rounds (proved of the real functions by jit::mem::index and jit::lfsr::fold_var / loop_cnt) and havoc what the callee may write (pool resp. mem_prev_index)",
             "JitterRng::stir_pool replaced by a recording stub in the collection harness (its behaviour: jit::stir::model)",
             "timer = harness fn returning kani::any() for every reading"]


def _c12(tier):
    hs = ["jit::lfsr::fold_fixed", "jit::lfsr::fold_var_small", "jit::lfsr::loop_cnt", "jit::mem::index", "jit::stir::model", "jit::measure::one",
          "jit::collect::s2", "jit::collect::any_rounds_prefix", "jit::collect::timer_stats"]
    if tier == "thorough":
        hs += ["jit::lfsr::fold_var", "jit::collect::s4"]
    return [Group("c12", hs, jobs=10, timeout=1500, mem_gb=16, native_replay=False, stubs=JIT_STUBS)]


PROPS["C12"] = dict(
    level="proof",
    level_text="Decomposed bounded-model-checking proof over all timer readings: the LFSR fold equals the documented bit-serial LFSR for every (pool, time); the stir equals its documented branching form; the memory-access source only moves its index; one measurement (order of the three readings, 32-bit delta sign-extended into the fold, stuck test, rotate-by-7 iff accepted, collector update) from every collector state; one collection (priming measurement, retries until `rounds` accepted, single stir, result = pool, 1 + 3 x measurements readings).",
    level_note="Bounds: rounds <= 3 and at most 2 (quick) / 4 (thorough) stuck measurements per collection; the loop bodies are uniform in the round number; for round counts up to 255 only the first 5 measurements of a collection are explored (jit::collect::any_rounds_prefix), complete collections with rounds > 3 are outside the solver claim. next_u32/fill_bytes on top of a collection are C16/C05. JitterRng::new() (OS clock, std feature) is not encoded. Trusted: Kani/CBMC, the reference model of the documented procedure, the stub contracts (each proved by its own stub-free harness).",
    tiers=both(_c12),
    explanation="Harnesses jit::lfsr::*, jit::stir::model, jit::mem::index (stub-free, callees vs model for all inputs) and jit::measure::one, jit::collect::s2/s4, jit::collect::timer_stats (callers with the noise sources stubbed, all readings symbolic, on-line model of the stuck test inside the stub).",
    bounds="rounds <= 3; stuck measurements per collection <= 2 (quick) / 4 (thorough); LFSR 64 rounds and up to 15 throw-away folds fully unrolled",
    assumptions=["mem_prev_index < 2048 (established by new_with_timer and preserved by memaccess: jit::mem::index)"],
)


def _c13(tier):
    hs = ["jit::tt::prefix_tiny", "jit::tt::prefix_stuck"]
    if tier == "thorough":
        hs += ["jit::tt::prefix_coarse"]
    return [Group("c13", hs, jobs=4, timeout=3400, mem_gb=30, native_replay=False, extra_kani=["--no-assertion-reach-checks"], stubs=JIT_STUBS)]


PROPS["C13"] = dict(
    level="proof",
    level_text="Bounded-model-checking proof over the real test_timer (noise sources stubbed to their reading-consumption contract): Ok(r) only if no documented failure condition holds and 1 <= r <= 128 and r * bitlen(mean) >= 128; every Err names a condition that holds on the readings consumed. The conditions are evaluated by an on-line model fed by the timer itself. Quick tier: the first 376 probes follow a fixed pattern (two patterns: tiny variations, stuck) that leaves the accumulators just below the decision thresholds, the priming reading and the last 24 probes (96 readings) are free 64-bit variables, so every threshold (mean 0/1/2.., 270 stuck, 3 backwards, zero readings/deltas, the lookup table and the log2 branch) is crossed symbolically. Thorough tier adds a coarse-timer pattern. The harness in which ALL 1601 readings are free (jit::tt::all_readings) exists but did not finish in 57 min on this machine and is not registered.",
    level_note="Bound of the quick tier: concrete prefix of 376 probes (stated above). Trusted: Kani/CBMC, the on-line model of the documented conditions in jit::tt.",
    tiers=both(_c13),
    explanation="jit::tt::prefix_tiny / prefix_stuck (/ prefix_coarse / all_readings): real test_timer; verdict checked against the model's accumulators (zero reading, zero delta, backwards count, mod-100 count, stuck count, summed absolute delta variation).",
    bounds="376 patterned + 24 symbolic probes per harness (2 patterns quick, 3 thorough); loop fully unrolled (unwind 402)",
)


def _c15(tier):
    hs = ["jit::lfsr::inj_pool", "jit::lfsr::inj_time", "jit::lfsr::fold_var_small", "jit::measure::one"] + ["jit::stir_flip::b%d" % i for i in range(64)]
    if tier == "thorough":
        hs.append("jit::lfsr::fold_var")
    return [Group("c15", hs, jobs=16, timeout=900, mem_gb=12, native_replay=False, stubs=JIT_STUBS[:1])]


def _c15_post(ctx):
    import gf2
    rc, out = native(["stirbasis"])
    vals = [int(x, 16) for x in out.split()]
    if rc != 0 or len(vals) != 65:
        ctx["errors"].append("native stirbasis failed")
        return
    ks = [v ^ vals[0] for v in vals[1:]]
    rk = gf2.rank(ks, 64)
    # second route: numpy determinant-free rank via elimination over GF(2)
    import numpy as np
    a = gf2.to_np(ks, 64)
    m = a.copy() % 2
    r2 = 0
    for c in range(64):
        piv = None
        for r in range(r2, 64):
            if m[r, c] == 1:
                piv = r
                break
        if piv is None:
            continue
        m[[r2, piv]] = m[[piv, r2]]
        for r in range(64):
            if r != r2 and m[r, c] == 1:
                m[r] = (m[r] + m[r2]) % 2
        r2 += 1
    ctx["extra"]["extra_obligations"] = 1
    ctx["extra"]["samples"].append(dict(certificate="stir rank", K_0=hex(ks[0]), K_63=hex(ks[63]), rank_route_int=rk, rank_route_numpy=int(r2)))
    ctx["extra"]["checker_extra"] = "exact rank over GF(2) of the 64 flip constants K_i = stir(e_i)^stir(0) taken from the real build (two routes)"
    if rk == 64 and r2 == 64:
        ctx["extra"]["extra_discharged"] = 1
    else:
        d = dict(reason="the linear part of stir_pool has rank %d < 64: two pools are merged" % rk, K=[hex(k) for k in ks])
        rdir = _write_cert_replay(ctx, "C15", "stir_rank", d)
        ctx["violations"].append(("certificate stir rank", [dict(function="rand_jitter::JitterRng::stir_pool", description=d["reason"], location={})], rdir, True))


PROPS["C15"] = dict(
    level="other",
    level_text="Solver: the LFSR fold is injective in the pool for every time value and injective in the time value for every pool value (two-copy miters over the real lfsr_time, all 2^128 pairs); the accepted path rotates the pool by exactly 7 (a permutation); stir is affine: 64 single-bit-flip identities stir(a ^ e_i) ^ stir(a) = K_i for every pool a. Exact: the 64 constants K_i (from the real build) have GF(2) rank 64, so the affine map is one-to-one. A direct injectivity query for stir does not terminate in any back end (parity), hence level 'other' for that part.",
    level_note="Trusted: Kani/CBMC; induction over the bits of b turning the 64 flip identities into affinity; exact rank computation (two routes).",
    tiers=both(_c15), post=_c15_post, trusted_base=HYBRID_TRUST[:-1],
    explanation="jit::lfsr::inj_pool, inj_time (the single fold is injective both ways), jit::lfsr::fold_var_small / fold_var (with variable rounds the pool update is still exactly that single fold: the throw-away rounds do not reach the pool), jit::measure::one (rotate_left(7) on the accepted path), jit::stir_flip::b0..b63, rank certificate.",
    bounds="none (all 64-bit values); LFSR loop of 64 rounds unrolled",
)


def _c16(tier):
    hs = ["jit::half::ops1", "jit::half::ops2", "jit::half::two_halves"] + (["jit::half::ops3"] if tier == "thorough" else [])
    return [Group("c16", hs, jobs=4, timeout=900, mem_gb=12, native_replay=False,
                  stubs=["JitterRng::gen_entropy replaced by a recording stub (stores and returns an arbitrary 64-bit value, counts collections); that the real one reads the timer >= rounds times is C12's jit::collect"])]


PROPS["C16"] = dict(
    level="proof",
    level_text="Bounded-model-checking proof of the half-word debt discipline as an inductive step: from an ARBITRARY (pool, half flag, rounds) configuration, every operation (next_u32, next_u64, fill_bytes(n <= 9), clone-and-continue) behaves as the ghost model says (a pending half is handed out exactly once and only by a next_u32 - directly or as the 1..4-byte tail of fill_bytes, which per C05 is a next_u32; every other output call collects afresh; a clone owes nothing), for histories of 1, 2 (quick) and 3 (thorough) operations.",
    level_note="Reading of the statement: fill_bytes is its documented decomposition into next_u64/next_u32 calls (C05), so a 1..4-byte fill with a pending half hands out that half (each collected value is still handed out at most once). Bound: histories <= 3 ops from an arbitrary configuration (the configuration space is exactly (pool, flag), so one step is already inductive). Trusted: Kani/CBMC; the gen_entropy stub contract.",
    tiers=both(_c16),
    explanation="jit::half::ops1/2/3 (ghost model vs real RngCore impl and Clone with gen_entropy stubbed) and jit::half::two_halves (the statement's explicit instance).",
    bounds="histories of <= 2 (quick) / 3 (thorough) operations from an arbitrary configuration; fill_bytes n <= 9; rounds 1..=255 symbolic",
)


# ----------------------------------------------------------------------- C09 (complete), C10, C11, C17, C19
HC_FS_STUB = "<Hc128Core as SeedableRng>::from_seed replaced by a recording stub in the Hc128Rng seeding-route harnesses (HC-128 initialisation itself is C02)"


def _c09_full(tier):
    gs = _c09(tier)
    hc = ["hc::u64_route_uf", "hc::from_rng", "hc::try_from_rng", "hc::from_seed_wrapper", "hc::core_from_seed_decode"]
    gs.append(Group("c09_hc", hc, jobs=5, timeout=900, mem_gb=12, native_replay=False,
                    confirm={"hc::u64_route_uf": "hc::u64_route_real"}, stubs=[HC_FS_STUB, UF_STUB, "Hc128Core::init replaced by a recording stub in core_from_seed_decode"]))
    isaac = ["c03::seed32::from_seed", "c03::seed32::seed_from_u64", "c03::seed32::from_rng", "c03::seed32::try_from_rng",
             "c03::seed64::from_seed", "c03::seed64::seed_from_u64", "c03::init32::one_pass", "c03::init64::one_pass",
             "c03::seed32::rng_routes_shape", "c03::seed64::rng_routes_shape"]
    if tier == "thorough":
        isaac += ["c03::seed64::from_rng", "c03::seed64::try_from_rng"]
    gs.append(Group("c09_isaac", isaac, jobs=8, timeout=1800, mem_gb=16, native_replay=False, stubs=[ISAAC_INIT_STUB]))
    if tier == "thorough":
        gs.append(Group("c09_isaac_init", ["c03::init32::two_pass", "c03::init32::one_pass", "c03::init64::two_pass", "c03::init64::one_pass"],
                        cbmc_args=QUIET, jobs=4, timeout=3000, mem_gb=24, native_replay=False, extra_kani=["--no-assertion-reach-checks"], stubs=[ISAAC_CUT_STUB]))
    return gs


ISAAC_INIT_STUB = "IsaacCore::init / Isaac64Core::init replaced by a recording stub (key array and number of passes logged) in the ISAAC seeding-route harnesses; init itself vs randinit() has its own harnesses (c03::init32/init64)"
ISAAC_CUT_STUB = "u32/u64::wrapping_add (and wrapping_sub) replaced by a checking stub returning a fresh arbitrary value per call (UF-cut), see harness/src/c03.rs"

PROPS["C09"] = dict(
    level="proof",
    level_text="Bounded-model-checking proofs, per generator type, that seed_from_u64(x) is from_seed of the documented expansion of x for every u64 (SplitMix64 stream for the xoshiro family; rand_core's PCG32 for XorShiftRng and Hc128Rng; key words + one pass for ISAAC), that from_rng builds the generator from exactly the bytes one fill_bytes call delivers and advances the source by exactly that much (1024/2048 bytes and two passes for ISAAC; redraws on zero blocks for XorShiftRng), and that try_from_rng equals from_rng for a working source and returns the source's own error, never a generator, for every position at which a fallible source starts failing.",
    level_note="from_seed is replaced by a recording stub where the route under test ends in it (its own behaviour is proved in C01/C08/C02); large-constant multiplications of the expansions are compared as uninterpreted functions (stub-free twins confirm failures). Bound: XorShiftRng redraws <= 4. Trusted: Kani/CBMC, the expansion reference models (PCG32 self-tested against rand_core's own value-breakage vector).",
    tiers=both(_c09_full),
    explanation="c08::<T>::{u64_route_uf,from_rng,try_from_rng} (14 xoshiro types, XorShiftRng), hc::{u64_route_uf,from_rng,try_from_rng,from_seed_wrapper,core_from_seed_decode}, c03::seed32/seed64::{from_seed,seed_from_u64,from_rng,try_from_rng} (+ thorough: init vs randinit).",
    bounds="XorShiftRng: at most 4 leading zero blocks; otherwise none",
)


def _c10(tier):
    hs = []
    for m in XO_ALL + ["xorshift"]:
        hs += ["c10::%s::clone_op" % m, "c10::%s::eq_fields" % m]
    hs += ["c10::jump_xoroshiro128plus::clone_jump", "c10::jump_xoshiro128plusplus::clone_jump"]
    eqk = ["hc::core_eq_k0", "hc::core_eq_k1", "hc::core_eq_k511", "hc::core_eq_k512", "hc::core_eq_k1023"]
    if tier == "quick":
        heavy = ["hc::core_eq_k0", "hc::core_eq_k512", "hc::core_eq_k1023", "hc::rng_clone_light", "hc::rng_eq_index_light"]
    else:
        heavy = eqk + ["hc::rng_clone_light", "hc::rng_eq_index_light", "hc::core_clone", "hc::rng_eq_index", "hc::rng_clone",
                 "c03::cl32::core_eq_fields", "c03::cl32::clone", "c03::cl64::core_eq_fields", "c03::cl64::clone"]
    return [Group("c10", hs, jobs=16, timeout=900, mem_gb=12, native_replay=False, stubs=[UF_STUB]),
            Group("c10_hc", heavy, cbmc_args=QUIET, jobs=5, timeout=2400, mem_gb=16, native_replay=False, extra_kani=["--no-assertion-reach-checks"], stubs=[GEN_STUB])] + \
        ([Group("c10_hcbuf", ["hc::buf::b%d" % b for b in (range(64) if os.environ.get("VERIF_HC_ALL_BLOCKS") else (0, 1, 30, 31, 32, 33, 62, 63))],
                jobs=4, timeout=2400, mem_gb=12, native_replay=False, extra_kani=["--no-assertion-reach-checks"])] if tier == "thorough" else [])


PROPS["C10"] = dict(
    level="proof",
    level_text="Bounded-model-checking proofs from every state: clone() yields a generator with identical fields that compares equal (where == exists) and returns the same values under next_u32, next_u64, fill_bytes (and jump for the 128-bit types); for two ARBITRARY generators == holds exactly when all fields are equal (the direction a dropped field breaks); for Hc128Rng == is (core, index), generators at different read positions of one block are unequal, and the buffer that == ignores is a function of the post-refill core (thorough). With determinism of every operation as a function of the fields (C19), field equality is inductive, which gives 'identical futures' for all continuations.",
    level_note="Bound for Hc128Core ==: pairs of cores that are zero except one arbitrary word at position K in {0, 512, 1023} (quick) / {0, 1, 511, 512, 1023} (thorough) and arbitrary counters (two fully arbitrary 4 KiB tables make the 4096-byte memcmp miter too slow); Hc128Rng == / clone: near-zero cores at every read position (quick), fully arbitrary tables (thorough). The 'buffer is a function of the post-refill core' lemma (hc::buffer_is_function_of_core) is thorough-only and needs ~40 GB. IsaacRng/Isaac64Rng offer no ==; their cores' == and the wrappers' clone are in the thorough tier (220-380 s each). jump on a clone is checked for two representative 128-bit types (the macro body is shared). Trusted: Kani/CBMC, the induction over operations.",
    tiers=both(_c10),
    explanation="c10::<T>::{clone_op,eq_fields} for 17 direct types, c10::jump_*::clone_jump, hc::{core_eq_fields,core_clone,rng_eq_index,rng_clone}, hc::buf::b<blk> (buffer-is-a-function-of-core lemma at block positions 0,1,30,31,32,33,62,63; all 64 with VERIF_HC_ALL_BLOCKS=1), c03::cl32/cl64::{core_eq_fields,clone}.",
    bounds="one operation after clone per query; buffered generators: every read position (symbolic)",
)


def _c11(tier):
    hs = ["c11::%s::roundtrip" % m for m in XO_ALL + ["xorshift"]]
    if tier == "quick":
        hs += ["c11::isaac::roundtrip_fixed", "c11::isaac64::roundtrip_fixed"]
    else:
        hs += ["c11::isaac::roundtrip", "c11::isaac64::roundtrip", "c11::isaac::roundtrip_fixed", "c11::isaac64::roundtrip_fixed"]
    return [Group("c11", hs, jobs=12, timeout=2400, mem_gb=24, features=("serde",), native_replay=False,
                  extra_kani=["--no-assertion-reach-checks"], stubs=[GEN_STUB])]


PROPS["C11"] = dict(
    level="proof",
    level_text="Bounded-model-checking proof over the REAL derive-generated Serialize/Deserialize code (and rand_isaac's isaac_array_serde, rand_core's BlockRng/BlockRng64 derives), run through a heap-free positional serde format written in the harness: from every state (ISAAC: every core, every buffered block, every read position, half-used or not) serialize, deserialize, and compare every field, ==, and the next reads; serializing leaves the original untouched.",
    level_note="Quick tier: ISAAC read position fixed (17; half-used for ISAAC-64), contents arbitrary; thorough tier: every read position (symbolic). Claim is for positional binary formats (the shape of bincode's fixint encoding): bincode's own encoder/decoder (heap Vec, io::Write) is outside the five crates and not symbolically executed. The future of the restored generator follows from field equality by C10/C19. Trusted: Kani/CBMC; the tape format in harness/src/tape.rs.",
    tiers=both(_c11),
    explanation="c11::<T>::roundtrip for the 15 rand_xoshiro types, XorShiftRng, IsaacRng, Isaac64Rng (harness crate built with --features serde).",
    bounds="none on states; ISAAC read position symbolic over the whole block",
)


def _c17(tier):
    hs = ["c17::xorshift_plain", "c17::xorshift_alt", "c17::hc_core_plain", "c17::hc_core_alt", "c17::hc_rng_plain",
          "c17::jitter_plain", "c17::jitter_alt", "c17::isaac_core_plain", "c17::isaac_core_alt", "c17::isaac_rng_plain",
          "c17::isaac64_core_plain", "c17::isaac64_core_alt", "c17::isaac64_rng_plain",
          "c17::hc_rng_alt", "c17::isaac_rng_alt", "c17::isaac64_rng_alt",
          "c17::concrete::xorshift", "c17::concrete::hc_core_and_rng", "c17::concrete::isaac", "c17::concrete::isaac64", "c17::concrete::jitter"]
    return [Group("c17", hs, jobs=16, timeout=1500, mem_gb=16, native_replay=False,
                  stubs=["integer formatting (<uN/iN as Display/Debug/LowerHex/UpperHex>::fmt) replaced by recording stubs: the value is folded into a log and a fixed token is written; core::fmt::DebugStruct::field replaced by a recording stub that renders the field's name and value (plain mode, through the value's own Debug) into a second log - in {:#?} mode the real one goes through PadAdapter, which did not fit"])]


PROPS["C17"] = dict(
    level="proof",
    level_text="Bounded-model-checking proof: for two ARBITRARY states of each state-hiding type at the same public read position, the real Debug::fmt, run through core::fmt::write into a heap-free sink, produces the same text ({:?} and {:#?}); so no seed, state or buffered word can reach the output.",
    level_note="What is compared per form: the text written, the sequence of values handed to core's integer formatters, and (struct builder) the name and plain rendering of every field handed to DebugStruct::field. Core's own layout code for {:#?} (PadAdapter) and its integer-to-text code are replaced by recording stubs and are not part of the claim (they are not code of the five crates). States are arbitrary in the words Debug could read (a symbolic table position, counters, a/b/c, pool); a Debug impl that printed a fixed other word would need that word made symbolic - the harness makes one symbolic position of each table symbolic. Trusted: Kani/CBMC.",
    tiers=both(_c17),
    explanation="c17::* : two-state comparisons of the formatted text at a symbolic byte position plus equal length, for XorShiftRng, Hc128Core, Hc128Rng, IsaacCore, IsaacRng, Isaac64Core, Isaac64Rng, JitterRng.",
    bounds="sink of 160 bytes (overflow asserted impossible)",
)


def _c19(tier):
    hs = ["c19::send_sync", "c19::seeding::interleaved_constructors"] + ["c19::%s::nonint" % m for m in XO_ALL + ["xorshift"]]
    return [Group("c19", hs, jobs=16, timeout=1200, mem_gb=12, native_replay=False, stubs=[UF_STUB])]


def _static_audit(ctx):
    """No static / thread_local / interior-mutability item in the five crates'
    default build (text audit of the sources as compiled; regenerated per run)."""
    import re, glob
    hits = []
    for f in sorted(glob.glob(REPO + "/rand_*/src/**/*.rs", recursive=True)):
        src = open(f).read()
        # strip the cfg(rngs_verif) hook blocks and test modules? keep it simple: scan all lines
        for ln, line in enumerate(src.split("\n"), 1):
            code = line.split("//")[0]
            if re.search(r"\bstatic\s+(mut\s+)?[A-Z_]+\s*:", code) or "thread_local!" in code or re.search(r"\b(Cell|RefCell|OnceCell|OnceLock|LazyLock|Mutex|RwLock)\s*<", code) or re.search(r"\bAtomic[A-Z]\w*::new", code):
                hits.append((f, ln, line.strip()))
    allowed = [h for h in hits if "rand_jitter/src/lib.rs" in h[0] and "JITTER_ROUNDS" in h[2]]
    other = [h for h in hits if h not in allowed]
    ctx["extra"]["samples"].append(dict(static_audit=dict(allowed=[list(map(str, h)) for h in allowed], unexpected=[list(map(str, h)) for h in other])))
    ctx["extra"]["extra_obligations"] = ctx["extra"].get("extra_obligations", 0) + 1
    if other:
        d = dict(reason="shared mutable state item in a generator crate: %s:%s %s" % other[0], items=[list(map(str, h)) for h in other])
        rdir = _write_cert_replay(ctx, "C19", "static_audit", d)
        ctx["violations"].append(("static audit", [dict(function=other[0][0], description=d["reason"], location=dict(file=other[0][0], line=str(other[0][1])))], rdir, True))
    else:
        ctx["extra"]["extra_discharged"] = ctx["extra"].get("extra_discharged", 0) + 1


PROPS["C19"] = dict(
    level="other",
    level_text="Reduction, not exploration of schedules: Kani does not model threads. The solver decides the sequential core - for two arbitrary instances (same type, and one of another crate) the values an instance returns and its final state are the same whether or not construction / operations / clones of other instances are interleaved, and vice versa; hidden statics or thread-locals would be ordinary shared memory to CBMC and make the two variants differ. The threaded statement then follows from Rust's aliasing rules (&mut self, no interior mutability, no static): checked by a per-run source audit for static/thread_local/Cell/Atomic items and compile-time Send + Sync obligations for every type.",
    level_note="Thread interleavings are reduced, not explored. The audit allows exactly one static (JITTER_ROUNDS, std feature, used by JitterRng::new() only, outside the default build). Trusted: Kani/CBMC, rustc's Send/Sync and borrow checking.",
    tiers=both(_c19), post=_static_audit,
    explanation="c19::<T>::nonint for 17 direct types, c19::seeding::interleaved_constructors, c19::send_sync, static audit.",
    bounds="two instances of the type under test plus one of another crate; a scripted operation sequence (next_u64, next_u32, fill_bytes(5)) twice",
)


# ----------------------------------------------------------------------- C03
def _c03(tier):
    gs = [Group("c03_seed", ["c03::seed32::from_seed", "c03::seed32::seed_from_u64", "c03::seed64::from_seed", "c03::seed64::seed_from_u64",
                             "c03::init32::one_pass", "c03::init64::one_pass", "c05_block::isaac::next", "c05_block::isaac64::next_end",
                             "c03::gen32::generate_q", "c03::gen64::generate_q"],
                jobs=8, timeout=3000, mem_gb=20, native_replay=False, extra_kani=["--no-assertion-reach-checks"],
                stubs=[ISAAC_INIT_STUB, ISAAC_CUT_STUB, GEN_STUB])]
    if tier == "thorough":
        bands = ["c03::gen32::generate_%d" % i for i in range(4)] + ["c03::gen64::generate_h%d" % i for i in range(8)]
        gs.append(Group("c03_gen", bands, cbmc_args=QUIET, jobs=4, timeout=5400, mem_gb=14, native_replay=False, extra_kani=["--no-assertion-reach-checks"], stubs=[ISAAC_CUT_STUB]))
        gs.append(Group("c03_init2", ["c03::init32::two_pass", "c03::init64::two_pass", "c05_block::isaac64::next"], cbmc_args=QUIET, jobs=3, timeout=3400, mem_gb=20,
                        native_replay=False, extra_kani=["--no-assertion-reach-checks"], stubs=[ISAAC_CUT_STUB]))
    return gs


PROPS["C03"] = dict(
    level="proof",
    level_text="Decomposed bounded-model-checking proof over all memories and seeds: (1) one refill (generate) from EVERY (mm[256], aa, bb, cc) is Jenkins' isaac()/isaac64() - decided with a 'UF-cut': wrapping_add is replaced by a stub that returns a fresh arbitrary value per call and checks on the fly, for every value earlier calls may have returned, that the operands are exactly those of Jenkins' step (incl. the two data-dependent reads per step), final memory/aa/bb/cc/results (in reversed hand-out order) compared with the stub's shadow state; (2) init vs randinit(): the same cut on the 24 additions/subtractions per 8-word block, starting from the golden ratio mixed four times; (3) from_seed / seed_from_u64 pass the documented key layout and pass count to init; (4) the 256-word block is handed out in index order by BlockRng (C05). Composition by induction (DESIGN.md).",
    level_note="A lock-step miter of generate against a second copy never finished in any formulation (six measured, DESIGN section 10); the UF-cut is sound because the real addition is one admissible choice of the stub's return values. QUICK tier: key layout of from_seed/seed_from_u64, one-pass init vs randinit, hand-out order of the block, and the first 6 steps of the refill (generate_q: the step code is shared by all steps); THOROUGH tier adds the refill (generate) in bands (ISAAC: 4 x 64 steps, 20-25 min each; ISAAC-64: 8 x 32 steps) and the two-pass init over an arbitrary 256-word key. Trusted: Kani/CBMC, the reference transcription in the stub (same shifts/indices as ref_isaac.rs, which is self-tested on Jenkins' vectors), the induction over calls.",
    tiers=both(_c03),
    explanation="c03::gen32/gen64::generate, c03::init32/init64::{one_pass,two_pass}, c03::seed32/seed64::{from_seed,seed_from_u64}, c05_block::isaac/isaac64::next.",
    bounds="none on memory/seed contents; one block (256 steps, 1026 additions) per query; init: 768 resp. 1536 additions per query",
)


# ----------------------------------------------------------------------- C14, C18
def _c14(tier):
    rep = ["xoroshiro64star", "xoroshiro128starstar", "xoshiro128plusplus", "xoshiro256starstar", "xoshiro512plus"]
    types = XO_LIN if tier == "thorough" else rep
    xo = []
    for m in types + ["xorshift", "splitmix64"]:
        xo += ["c05::%s::fill" % m]
    for m in types:
        xo += ["c08::%s::from_seed" % m, "c08::%s::u64_nonzero" % m, "c08::%s::from_rng" % m, "c08::%s::try_from_rng" % m]
    xo += ["c08::xorshift::from_seed", "c08::xorshift::from_rng", "c08::xorshift::try_from_rng", "c04::step", "c01::splitmix64::seed"]
    jumps = XO_JUMP if tier == "thorough" else ["xoroshiro128plus", "xoshiro128plusplus"]
    for m in jumps:
        xo += ["c06::%s::jump" % m, "c06::%s::long_jump" % m]
    blk = ["c02::generate_seq", "c05_block::hc::next", "c05_block::hc_fill::p15_n9", "c05_block::hc_fill::p16_n0",
           "c05_block::isaac::next", "c05_block::isaac_fill::p255_n9", "c05_block::isaac64_fill::p255_h_n9", "c05_block::isaac64::next_end",
           "hc::core_from_seed_decode", "c02::expand_placement", "c02::expand_panicfree", "c03::gen32::generate_q", "c03::gen64::generate_q", "c03::seed32::from_rng", "c03::init32::one_pass", "c03::init64::one_pass"]
    if tier == "thorough":
        blk += ["c02::sixteen_seq", "c02::step_p", "c02::step_q", "c05_block::isaac64::next", "c03::seed64::from_rng",
                "c03::init32::two_pass", "c03::init64::two_pass",
                "c03::gen32::generate_0", "c03::gen32::generate_1", "c03::gen32::generate_2", "c03::gen32::generate_3"]
    jit = ["jit::measure::one", "jit::collect::s2", "jit::collect::timer_stats", "jit::mem::index", "jit::lfsr::loop_cnt", "jit::lfsr::fold_fixed",
           "jit::misc::set_rounds", "jit::half::ops2", "jit::stir::model", "jit::tt::prefix_tiny",
           "jit::collect::any_rounds_prefix", "jit::lfsr::fold_var_small"]
    if tier == "thorough":
        jit += ["jit::lfsr::fold_var", "jit::collect::s4", "jit::half::ops3", "jit::tt::prefix_stuck", "jit::tt::prefix_coarse"]
    return [Group("c14_xo", xo, jobs=12, timeout=1800, mem_gb=12, stubs=[UF_STUB]),
            Group("c14_blk", blk, jobs=5, timeout=3000, mem_gb=20, native_replay=False, extra_kani=["--no-assertion-reach-checks"], stubs=[GEN_STUB, ISAAC_CUT_STUB]),
            Group("c14_jit", jit, jobs=6, timeout=3400, mem_gb=30, native_replay=False, extra_kani=["--no-assertion-reach-checks"], stubs=JIT_STUBS)]


PROPS["C14"] = dict(
    level="proof",
    repo_checks_only=True,
    level_text="Kani instruments every arithmetic overflow (dev-profile semantics), array bound, slice split, unwrap/expect, assert! and unreachable! of the code it executes; C14 is the conjunction of those built-in checks - restricted to locations inside the five crates and rand_core - over harnesses that between them call every public operation from an arbitrary configuration: all constructors with symbolic seeds/u64/source streams, next_u32/next_u64/fill_bytes (incl. length 0) from symbolic states and buffer positions, jump/long_jump, HC-128 generate for every counter of the whole usize range (the three index assert!s), ISAAC generate/init for every memory, the unsafe byte view in ISAAC's from_rng, and for JitterRng measure_jitter/gen_entropy/test_timer/timer_stats/memaccess/random_loop_cnt/set_rounds over ALL timer readings.",
    level_note="Only checks located in /repo or its dependencies count here (functional assertions of the harnesses belong to the other properties). JitterRng's stuck-retry loop is bounded as in C12 (non-termination while the timer stays stuck is allowed by the property). JitterRng::new() (std feature, OS clock) is not encoded. Trusted: Kani's instrumentation, CBMC.",
    tiers=both(_c14),
    explanation="Built-in checks of Kani over the union of the harnesses listed; failing checks are attributed by source location.",
    bounds="as in the harnesses' own properties (fill_bytes n <= 24, XorShiftRng redraws <= 4, JitterRng rounds <= 3 / stuck <= 2 or 4)",
)


def _c18_set():
    hs = []
    for m in XO_LIN:
        hs.append("c01::%s::step" % m if not m.startswith("xoroshiro64") else "c01::%s_uf::step_uf" % m)
    hs += ["c01::splitmix64::step64_uf", "c01::splitmix64::step32_uf", "c04::step",
           "c02::generate_seq", "c05_block::hc::next", "jit::measure::one", "jit::collect::s2"]
    return hs


def _c18(tier):
    hs = _c18_set()
    if tier == "thorough":
        hs = hs + ["c05::xoshiro256plusplus::fill", "c05::xorshift::fill", "c05_block::isaac::next", "c03::init32::one_pass", "c03::init64::one_pass", "c02::step_p", "c02::step_q"]
    return [Group("c18_plain", hs, jobs=16, timeout=3000, mem_gb=16, native_replay=False, stubs=[UF_STUB, GEN_STUB]),
            Group("c18_serde", hs, jobs=16, timeout=3000, mem_gb=16, features=("serde",), native_replay=False, stubs=[UF_STUB, GEN_STUB])]


def _c18_audit(ctx):
    """No code in the five crates is conditional on the build profile."""
    import re, glob
    hits = []
    for f in sorted(glob.glob(REPO + "/rand_*/src/**/*.rs", recursive=True)):
        for ln, line in enumerate(open(f).read().split("\n"), 1):
            code = line.split("//")[0]
            if re.search(r"debug_assert|cfg!?\s*\(\s*(not\s*\(\s*)?debug_assertions|overflow_checks|cfg!?\s*\(\s*(not\s*\(\s*)?(opt_level|target_feature)", code):
                hits.append([f, ln, line.strip()])
    ctx["extra"]["samples"].append(dict(profile_conditional_code_audit=hits))
    ctx["extra"]["extra_obligations"] = ctx["extra"].get("extra_obligations", 0) + 1
    if hits:
        d = dict(reason="code conditional on the build profile: %s:%s %s" % tuple(hits[0]), items=hits)
        rdir = _write_cert_replay(ctx, "C18", "profile_audit", d)
        ctx["violations"].append(("profile audit", [dict(function=hits[0][0], description=d["reason"], location=dict(file=hits[0][0], line=str(hits[0][1])))], rdir, True))
    else:
        ctx["extra"]["extra_discharged"] = ctx["extra"].get("extra_discharged", 0) + 1


PROPS["C18"] = dict(
    level="other",
    level_text="Build configurations are compile-time, the solver cannot range over them; each axis is reduced to a for-all-inputs obligation it can decide. (a) overflow-checks / debug-assertions on vs off: the only semantic difference is panic vs wrap/skip; Kani verifies the dev-profile semantics and its overflow/assertion checks inside the crates are proved unreachable-to-fail for all inputs (the same harnesses as C14 for the operations listed), so both settings compute the same values; a per-run source audit shows no code is conditional on the profile (debug_assert!, cfg(debug_assertions), ...). (b) serde on vs off: the step/refill/measure harnesses are discharged twice, with and without --features serde, against the same reference, hence equal to each other for all states. (c) opt-level: Kani verifies MIR semantics; equality of opt-level 0 and 3 rests on absence of undefined behaviour (xoshiro/xorshift/hc forbid unsafe; rand_isaac's and rand_jitter's unsafe blocks are covered by Kani's pointer checks) and on compiler correctness - trusted.",
    level_note="Not an exploration of configurations: a reduction. Counterexamples found natively are replayed in both the dev and the release profile by the runner (that is how the overflow defect D2 showed 'panic in dev, wrap in release'). Trusted: rustc/LLVM.",
    tiers=both(_c18), post=_c18_audit,
    explanation="harness set x {no features, --features serde}; profile audit.",
    bounds="as in the harnesses' own properties",
)


# Properties whose checks have been validated on the unchanged tree (clean pass
# within the tier budgets); only these are claimed in MANIFEST.json.
CLAIMED = ["C%02d" % i for i in range(1, 20)]
