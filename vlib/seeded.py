#!/usr/bin/env python3
"""Seeded-change management.

  seeded.py adopt <name> <worktree> <crate> <demo_file> <property> "<needs>"
      Confirms in the scratch worktree (outside /repo and /verif) that the change
      compiles, passes the existing suite, and that the demonstration fails
      with it and passes without it; then stores it as /verif/seeded/<name>/.
  seeded.py run <name> [<check ids>...]
      Applies the patch to /repo, runs the given checks (default: the property
      it breaks), undoes the patch, records the outcome in meta.json.
"""
import json
import os
import shutil
import subprocess
import sys
import time

VERIF = os.path.dirname(os.path.dirname(os.path.abspath(__file__)))
SEEDED = os.path.join(VERIF, "seeded")


def sh(cmd, cwd=None, timeout=3600):
    p = subprocess.run(cmd, cwd=cwd, shell=True, stdout=subprocess.PIPE, stderr=subprocess.STDOUT, text=True, timeout=timeout)
    return p.returncode, p.stdout


def adopt(name, wt, crate, demo_file, prop, needs):
    patch = os.path.join(wt, "patch.diff")
    assert os.path.exists(patch)
    # normalise: start from a clean tree, apply the patch
    sh("git checkout -- . ", cwd=wt)
    rc, out = sh("git apply patch.diff", cwd=wt)
    assert rc == 0, out
    rc, out = sh("cargo test --workspace --offline 2>&1 | grep -E 'test result|FAILED|error' ", cwd=wt)
    suite_ok = "FAILED" not in out and "error" not in out and "test result: ok" in out
    tests_dir = os.path.join(wt, crate, "tests")
    made_dir = not os.path.exists(tests_dir)
    os.makedirs(tests_dir, exist_ok=True)
    dst = os.path.join(tests_dir, "zz_seeded_demo.rs")
    shutil.copy(os.path.join(wt, "demo", demo_file), dst)
    feat = os.environ.get("FEATURES", "")
    fflag = (" --features " + feat) if feat else ""
    rc1, out1 = sh("cargo test --offline -p %s%s --test zz_seeded_demo 2>&1 | tail -30" % (crate, fflag), cwd=wt)
    fails_with = "test result: FAILED" in out1
    sh("git apply -R patch.diff", cwd=wt)
    rc2, out2 = sh("cargo test --offline -p %s%s --test zz_seeded_demo 2>&1 | tail -30" % (crate, fflag), cwd=wt)
    passes_without = "test result: ok" in out2 and "FAILED" not in out2 and "0 passed" not in out2
    os.remove(dst)
    if made_dir:
        shutil.rmtree(tests_dir)
    sh("git apply patch.diff", cwd=wt)
    print("suite passes with change:", suite_ok, "| demo fails with change:", fails_with, "| demo passes without:", passes_without)
    if not (suite_ok and fails_with and passes_without):
        print(out1[-1500:])
        print(out2[-1500:])
        return 1
    d = os.path.join(SEEDED, name)
    os.makedirs(d, exist_ok=True)
    shutil.copy(patch, os.path.join(d, "patch.diff"))
    shutil.copy(os.path.join(wt, "demo", demo_file), os.path.join(d, demo_file))
    for extra in ("meta.txt",):
        if os.path.exists(os.path.join(wt, extra)):
            shutil.copy(os.path.join(wt, extra), os.path.join(d, "author_notes.txt"))
    meta = dict(name=name, demo_features=feat, breaks_property=prop, needs_to_manifest=needs, crate=crate, demo=demo_file,
                confirmed=dict(existing_suite_passes_with_change=True, demo_fails_with_change=True, demo_passes_without_change=True,
                               how="scratch worktree %s: git apply patch.diff; cargo test --workspace --offline; cp demo into %s/tests/ and cargo test --offline -p %s --test zz_seeded_demo; git apply -R; same demo again" % (wt, crate, crate)),
                checks_run=[])
    json.dump(meta, open(os.path.join(d, "meta.json"), "w"), indent=1)
    print("adopted as", d)
    return 0


def run_wt(name, checks, tier="quick"):
    """Evaluate in a scratch worktree (outside /repo and /verif) via VERIF_REPO;
    /repo is not touched, several of these can run side by side."""
    d = os.path.join(SEEDED, name)
    meta = json.load(open(os.path.join(d, "meta.json")))
    if not checks:
        checks = [meta["breaks_property"]]
    wt = "/tmp/seeded_wt/" + name
    sh("git -C /repo worktree remove --force %s" % wt)
    os.makedirs("/tmp/seeded_wt", exist_ok=True)
    rc, out = sh("git -C /repo worktree add --detach %s HEAD" % wt)
    assert rc == 0, out
    rc, out = sh("git apply %s" % os.path.join(d, "patch.diff"), cwd=wt)
    assert rc == 0, out
    results = []
    try:
        for c in checks:
            t0 = time.time()
            rc, out = sh("VERIF_REPO=%s ./check %s --tier %s" % (wt, c, tier), cwd=VERIF, timeout=14000)
            viol = [l for l in out.split("\n") if l.startswith("VIOLATION") or l.startswith("  FAILED") or l.startswith("ERROR")]
            results.append(dict(check=c, tier=tier, exit=rc, seconds=round(time.time() - t0), lines=viol[:12]))
            print(c, "exit", rc, "\n  " + "\n  ".join(viol[:8]))
    finally:
        sh("git -C /repo worktree remove --force %s" % wt)
        tag = wt.replace("/", "_").replace("-", "_")
        shutil.rmtree(os.path.join(VERIF, "work", "alt", tag), ignore_errors=True)
    meta = json.load(open(os.path.join(d, "meta.json")))
    meta["checks_run"] = [r for r in meta.get("checks_run", []) if not any(r["check"] == x["check"] and r["tier"] == x["tier"] for x in results)] + results
    meta["detected_by"] = sorted(set(meta.get("detected_by", []) + [r["check"] for r in results if r["exit"] == 1]))
    json.dump(meta, open(os.path.join(d, "meta.json"), "w"), indent=1)
    return 0


def run(name, checks, tier="quick"):
    d = os.path.join(SEEDED, name)
    meta = json.load(open(os.path.join(d, "meta.json")))
    if not checks:
        checks = [meta["breaks_property"]]
    rc, out = sh("git -C /repo status --porcelain")
    assert out.strip() == "", "/repo not clean: " + out
    rc, out = sh("git -C /repo apply %s" % os.path.join(d, "patch.diff"))
    assert rc == 0, out
    results = []
    try:
        for c in checks:
            t0 = time.time()
            rc, out = sh("./check %s --tier %s" % (c, tier), cwd=VERIF, timeout=7200)
            viol = [l for l in out.split("\n") if l.startswith("VIOLATION") or l.startswith("  FAILED") or l.startswith("ERROR")]
            results.append(dict(check=c, tier=tier, exit=rc, seconds=round(time.time() - t0), lines=viol[:12]))
            print(c, "exit", rc, "\n  " + "\n  ".join(viol[:8]))
    finally:
        sh("git -C /repo checkout -- .")
    meta["checks_run"] = [r for r in meta.get("checks_run", []) if not any(r["check"] == x["check"] and r["tier"] == x["tier"] for x in results)] + results
    meta["detected_by"] = sorted(set(meta.get("detected_by", []) + [r["check"] for r in results if r["exit"] == 1]))
    json.dump(meta, open(os.path.join(d, "meta.json"), "w"), indent=1)
    return 0


if __name__ == "__main__":
    if sys.argv[1] == "adopt":
        sys.exit(adopt(*sys.argv[2:8]))
    elif sys.argv[1] == "runwt":
        tier = "quick"
        args = sys.argv[3:]
        if args and args[0] in ("--thorough",):
            tier = "thorough"
            args = args[1:]
        sys.exit(run_wt(sys.argv[2], args, tier))
    elif sys.argv[1] == "run":
        tier = "quick"
        args = sys.argv[3:]
        if args and args[0] in ("--thorough",):
            tier = "thorough"
            args = args[1:]
        sys.exit(run(sys.argv[2], args, tier))
