"""Hybrid certificates for C06/C07: matrices are extracted from the real build
(native helper, basis states through the hooks), tied to the code for all
states by the solver (linearity / shape harnesses), and then checked by exact
GF(2) algebra, two independent routes (vlib/gf2.py)."""
import os
import subprocess
import time

import numpy as np

import gf2
from kani import WORK

GEN_DIR = os.path.join(WORK, "gen")
JUMP_TYPES = ["xoroshiro128plus", "xoroshiro128plusplus", "xoroshiro128starstar", "xoshiro128plus",
              "xoshiro128plusplus", "xoshiro128starstar", "xoshiro256plus", "xoshiro256plusplus",
              "xoshiro256starstar", "xoshiro512plus", "xoshiro512plusplus", "xoshiro512starstar"]
WORDBITS = {"xoroshiro64star": 32, "xoroshiro64starstar": 32, "xoshiro128plus": 32, "xoshiro128plusplus": 32,
            "xoshiro128starstar": 32, "xorshift": 32}


def native_bin():
    return os.path.join(WORK, "td_native", "release", "rngs_native")


_cache = {}


def matrix(name, what):
    key = (name, what)
    if key in _cache:
        return _cache[key]
    p = subprocess.run([native_bin(), "matrix", name, what], stdout=subprocess.PIPE, text=True, timeout=300)
    lines = p.stdout.split("\n")
    if p.returncode != 0 or not lines[0].startswith("N "):
        raise RuntimeError("native matrix %s %s failed: %s" % (name, what, p.stdout[:200]))
    n = int(lines[0].split()[1])
    cols = [int(x, 16) for x in lines[1:n + 1]]
    assert len(cols) == n
    _cache[key] = (n, cols)
    return n, cols


def derive_jump_poly(name, what):
    """Polynomial J (int) with J(M) e0 = Jump e0, from the real code's matrices."""
    n, M = matrix(name, "step")
    _, Jm = matrix(name, what)
    return n, gf2.solve_poly_for(M, n, Jm)


def write_jump_polys(log=None):
    """work/gen/jump_polys.rs for the C06 shape harnesses. Returns dict of problems."""
    os.makedirs(GEN_DIR, exist_ok=True)
    problems = {}
    lines = ["// @generated per run by vlib/hybrid.py from the real code (native matrices + exact algebra)\n"]
    for name in JUMP_TYPES:
        wb = WORDBITS.get(name, 64)
        ty = "u32" if wb == 32 else "u64"
        for what, prefix in (("jump", "J"), ("long_jump", "L")):
            try:
                n, J = derive_jump_poly(name, what)
            except Exception as e:  # native helper failed
                n, J = (128, None)
                problems[(name, what)] = str(e)
            if J is None:
                problems.setdefault((name, what), "no polynomial J with J(M) e0 = jump(e0): e0 not cyclic or jump not polynomial in the step")
                n = matrix(name, "step")[0] if (name, "step") in _cache else n
                J = 0
            words = [(J >> (wb * i)) & ((1 << wb) - 1) for i in range(n // wb)]
            lines.append("pub const %s_%s: [%s; %d] = [%s];\n" % (prefix, name.upper(), ty, n // wb, ", ".join("0x%x" % w for w in words)))
    new = "".join(lines)
    path = os.path.join(GEN_DIR, "jump_polys.rs")
    old = open(path).read() if os.path.exists(path) else None
    if old != new:
        open(path, "w").write(new)
    return problems


def check_period(name, thorough):
    """C07 certificate for one generator type. Returns (ok, detail dict)."""
    t0 = time.time()
    n, M = matrix(name, "step")
    _, Z = matrix(name, "zero")
    d = dict(type=name, n=n)
    if Z != gf2.identity(n):
        return False, dict(d, reason="hook round trip is not the identity")
    fs = gf2.mersenne_factors(n)
    d["prime_factors_of_2^n-1"] = [str(p) for p in fs]
    rk = gf2.rank(M, n)
    d["rank"] = rk
    f, L = gf2.min_poly(M, n)
    d["minpoly_degree"] = L
    if f is None:
        return False, dict(d, reason="minimal polynomial has degree %d < n: state space splits into shorter cycles" % L)
    d["char_poly_hex"] = hex(f)
    ok, why = gf2.poly_is_primitive(f, n, fs)
    d["route_poly"] = "primitive" if ok else why
    if not ok:
        return False, dict(d, reason="characteristic polynomial is not primitive: " + why)
    # f(M) = 0 double check on one column set (exact): f(M) e_0 == 0 via Krylov
    x, acc = 1, 0
    for i in range(n + 1):
        if (f >> i) & 1:
            acc ^= x
        x = gf2.mat_vec(M, x)
    if acc != 0:
        return False, dict(d, reason="f(M) e0 != 0 (internal inconsistency)")
    if n <= 128 or thorough:
        ok2, why2 = gf2.np_order_is_full(gf2.to_np(M, n), n, fs)
        d["route_matrix"] = "order 2^n-1" if ok2 else why2
        if not ok2:
            return False, dict(d, reason="matrix route: " + why2)
    else:
        d["route_matrix"] = "skipped in the quick tier for n > 128 (thorough tier runs it)"
    d["seconds"] = round(time.time() - t0, 2)
    return True, d


def check_jump(name, what, thorough):
    """C06 certificate: J(M) == M^(2^k) == matrix of the real jump."""
    t0 = time.time()
    n, M = matrix(name, "step")
    _, Jm = matrix(name, what)
    k = n // 2 if what == "jump" else 3 * n // 4
    d = dict(type=name, fn=what, n=n, exponent="2^%d" % k)
    f, L = gf2.min_poly(M, n)
    if f is None:
        return False, dict(d, reason="engine matrix is not cyclic (minimal polynomial degree %d)" % L)
    J = gf2.solve_poly_for(M, n, Jm)
    if J is None:
        return False, dict(d, reason="jump is not a polynomial in the step on e0")
    d["J_hex"] = hex(J)
    target = gf2.ppowmod_x(1 << k, f)
    d["route_poly"] = gf2.pmod(J, f) == target
    # J(M) == Jm on all basis states (exact, int route; Horner with n mat-vec per column is n^2 -> use Krylov trick):
    # compare J(M) e_j with Jm e_j for all j through the numpy route below.
    A = gf2.to_np(M, n)
    P = gf2.np_pow2k(A, k)
    d["route_matrix_jump_eq_power"] = bool(np.array_equal(P, gf2.to_np(Jm, n)))
    if n <= 128 or thorough:
        d["route_matrix_J_of_M_eq_jump"] = bool(np.array_equal(gf2.np_poly_eval(J, A), gf2.to_np(Jm, n)))
    ok = d["route_poly"] and d["route_matrix_jump_eq_power"] and d.get("route_matrix_J_of_M_eq_jump", True)
    if not ok:
        # a basis state on which the real jump and M^(2^k) differ
        Pm = P
        Jn = gf2.to_np(Jm, n)
        diff = np.argwhere(Pm != Jn)
        if len(diff):
            j = int(diff[0][1])
            d["witness_basis_state_bit"] = j
            d["real_jump_image_hex"] = hex(Jm[j])
        d["reason"] = "real %s() != 2^%d steps" % (what, k)
    d["seconds"] = round(time.time() - t0, 2)
    return ok, d
