"""Run Kani harness groups against /repo's current working tree and parse the
per-check results (Kani's JSON export)."""
import json
import os
import re
import shutil
import subprocess
import time

VERIF = os.path.dirname(os.path.dirname(os.path.abspath(__file__)))
WORK = os.path.join(VERIF, "work")
GUARD_FLAGS = "--cfg rngs_verif"
# The tree under test. Registered commands always use /repo; VERIF_REPO lets the
# seeded-change tooling evaluate a scratch worktree without touching /repo: the
# harness and native crates are then copied under work/alt/ with their path
# dependencies pointing at that tree.
REPO = os.environ.get("VERIF_REPO", "/repo")


_BASE_WORK = WORK


def _crate_dir(name):
    src = os.path.join(VERIF, name)
    if REPO == "/repo":
        return src
    tag = re.sub(r"[^A-Za-z0-9]", "_", REPO)
    dst = os.path.join(_BASE_WORK, "alt", tag, name)
    if os.path.exists(dst):
        shutil.rmtree(dst)
    os.makedirs(os.path.dirname(dst), exist_ok=True)
    shutil.copytree(src, dst)
    for f in ("Cargo.toml",):
        p = os.path.join(dst, f)
        t = open(p).read().replace('path = "/repo/', 'path = "%s/' % REPO)
        if name == "native":
            t = t.replace('path = "../harness"', 'path = "%s"' % os.path.join(os.path.dirname(dst), "harness"))
        open(p, "w").write(t)
    shutil.copy(os.path.join(REPO, "Cargo.lock"), os.path.join(dst, "Cargo.lock")) if name == "harness" and not os.path.exists(os.path.join(dst, "Cargo.lock")) else None
    return dst


HARNESS = _crate_dir("harness")
if REPO != "/repo":
    WORK = os.path.join(WORK, "alt", re.sub(r"[^A-Za-z0-9]", "_", REPO))


class Group:
    """A set of harnesses verified by one `cargo kani` invocation."""

    def __init__(self, name, harnesses, jobs=8, timeout=600, mem_gb=16,
                 features=(), cbmc_args=(), solver=None, native_replay=True,
                 stubs=(), extra_kani=(), confirm=None):
        self.name = name
        self.harnesses = list(harnesses)
        self.jobs = jobs
        self.timeout = timeout          # per harness, seconds
        self.mem_gb = mem_gb            # ulimit -v per process
        self.features = tuple(features)
        self.cbmc_args = tuple(cbmc_args)
        self.solver = solver
        self.native_replay = native_replay
        self.stubs = tuple(stubs)       # documentation only (evidence)
        self.extra_kani = tuple(extra_kani)
        # harness -> stub-free twin used to turn a failure into a natively replayable counterexample
        self.confirm = dict(confirm or {})


def _env():
    env = dict(os.environ)
    env["RUSTFLAGS"] = GUARD_FLAGS
    env["CARGO_NET_OFFLINE"] = "true"
    env["VERIF_GEN_DIR"] = os.path.join(WORK, "gen")
    env.pop("RUSTUP_TOOLCHAIN", None)
    return env


def target_dir(group):
    key = "td_" + re.sub(r"[^A-Za-z0-9_]", "_", group.name)
    return os.path.join(WORK, key)


def run_group(group, run_dir, log, chunk=80):
    """Large groups are run as several cargo-kani invocations of at most `chunk`
    harnesses (kani-driver buffers the output of all harnesses of an
    invocation); the results are merged."""
    import copy
    if len(group.harnesses) <= chunk:
        results, wall, text = _run_group_once(group, run_dir, log)
        # kani-driver's CBMC output parser occasionally panics (seen with
        # --verbosity 4: "assertion failed: input.len() == 2"), which loses the
        # results of the whole invocation. That is an infrastructure failure,
        # not a verdict: the harnesses without a result are run once more.
        lost = [h for h in group.harnesses if results.get(h, {}).get("status") == "error"
                and ("no JSON export" in results[h].get("reason", "") or "missing from Kani" in results[h].get("reason", ""))]
        if lost and "panicked at kani-driver" in text:
            log("  group %s: kani-driver crashed, re-running %d harnesses without a result" % (group.name, len(lost)))
            g = copy.copy(group)
            g.harnesses = lost
            g.part = 99
            r, w, t = _run_group_once(g, run_dir, log)
            results.update(r)
            wall += w
            text += t
        return results, wall, text
    results, wall, text = {}, 0.0, ""
    for i in range(0, len(group.harnesses), chunk):
        g = copy.copy(group)
        g.harnesses = group.harnesses[i:i + chunk]
        g.part = i // chunk
        r, w, t = run_group(g, run_dir, log, chunk)
        results.update(r)
        wall += w
        text += t
    return results, wall, text


def _run_group_once(group, run_dir, log):
    """Returns dict harness -> result dict. Never raises on verification
    outcomes; infrastructure problems are reported as status 'error'."""
    os.makedirs(run_dir, exist_ok=True)
    part = ("_p%d" % group.part) if getattr(group, "part", None) is not None else ""
    out_json = os.path.join(run_dir, group.name + part + ".json")
    out_log = os.path.join(run_dir, group.name + part + ".log")
    if os.path.exists(out_json):
        os.remove(out_json)
    cmd = ["cargo", "kani", "--target-dir", target_dir(group),
           "-Z", "stubbing", "-Z", "unstable-options",
           "--export-json", out_json,
           "--harness-timeout", "%ds" % group.timeout,
           "-j", str(max(1, min(group.jobs, len(group.harnesses)))),
           "--output-format", "terse", "--exact"]
    for h in group.harnesses:
        cmd += ["--harness", h]
    if group.features:
        cmd += ["--features", ",".join(group.features)]
    if group.solver:
        cmd += ["--solver", group.solver]
    cmd += list(group.extra_kani)
    if group.cbmc_args:
        cmd += ["--cbmc-args"] + list(group.cbmc_args)
    t0 = time.time()
    with open(out_log, "w") as lf:
        lf.write("# " + " ".join(cmd) + "\n")
        lf.flush()
        # overall cap: generous (harnesses may queue behind each other)
        waves = (len(group.harnesses) + max(1, group.jobs) - 1) // max(1, group.jobs)
        cap = 300 + group.timeout * waves + 20 * len(group.harnesses)
        rc = _run_watched(cmd, lf, cap, group.mem_gb)
    wall = time.time() - t0
    log("  group %-28s %3d harnesses  rc=%s  %.0fs" % (group.name, len(group.harnesses), rc, wall))
    results = {}
    data = None
    if os.path.exists(out_json):
        try:
            data = json.load(open(out_json))
        except Exception as e:  # truncated file
            data = None
    text = open(out_log, errors="replace").read()
    if data is None:
        for h in group.harnesses:
            results[h] = dict(status="error", reason="no JSON export (build failure, crash or overall cap); see " + out_log,
                              checks=[], time_s=0.0, stats={})
        return results, wall, text
    stats = {c["harness_id"]: (c.get("cbmc_stats") or {}) for c in data.get("cbmc", [])}
    for r in data["verification_results"]["results"]:
        h = r["harness_id"]
        results[h] = dict(status=r["status"], checks=r.get("checks", []),
                          time_s=r.get("duration_ms", 0) / 1000.0, stats=stats.get(h, {}))
    for h in group.harnesses:
        if h not in results:
            results[h] = dict(status="error", reason="harness missing from Kani's results (not found, timed out or crashed)",
                              checks=[], time_s=0.0, stats={})
    # timeouts / out-of-memory are reported by Kani as failures without failed checks
    for h, r in results.items():
        if r["status"] != "Success" and r["status"] != "error":
            failed = [c for c in r["checks"] if c["status"] == "Failure"]
            if not failed:
                r["status"] = "error"
                r["reason"] = "verification did not complete (timeout, out of memory or CBMC error)"
    return results, wall, text


def _descendants(pid):
    """pids of all descendants of pid (via /proc)."""
    kids = {}
    for d in os.listdir("/proc"):
        if not d.isdigit():
            continue
        try:
            with open("/proc/%s/stat" % d) as f:
                st = f.read()
            ppid = int(st[st.rindex(")") + 2:].split()[1])
            kids.setdefault(ppid, []).append(int(d))
        except Exception:
            pass
    out, todo = [], [pid]
    while todo:
        x = todo.pop()
        for k in kids.get(x, []):
            out.append(k)
            todo.append(k)
    return out


def _run_watched(cmd, lf, cap, mem_gb):
    """Run cmd; a watchdog kills any CBMC descendant whose resident set exceeds
    mem_gb (Kani then reports that harness as failed without failed checks =
    inconclusive). `ulimit -v` is not used: it also hits kani-driver itself."""
    p = subprocess.Popen(cmd, cwd=HARNESS, env=_env(), stdout=lf, stderr=subprocess.STDOUT)
    t0 = time.time()
    while True:
        try:
            return p.wait(timeout=5)
        except subprocess.TimeoutExpired:
            pass
        if time.time() - t0 > cap:
            for k in _descendants(p.pid):
                try:
                    os.kill(k, 9)
                except Exception:
                    pass
            p.kill()
            p.wait()
            return -9
        for k in _descendants(p.pid):
            try:
                with open("/proc/%d/comm" % k) as f:
                    comm = f.read().strip()
                if comm != "cbmc":
                    continue
                with open("/proc/%d/statm" % k) as f:
                    rss_pages = int(f.read().split()[1])
                if rss_pages * 4096 > mem_gb * (1 << 30):
                    lf.write("\n# watchdog: killing cbmc pid %d, RSS %.1f GB > %d GB\n" % (k, rss_pages * 4096 / 2**30, mem_gb))
                    lf.flush()
                    os.kill(k, 9)
            except Exception:
                pass


def playback_print(group, harness, run_dir):
    """Re-run one failing harness with concrete playback; returns the list of
    generated unit tests (source text)."""
    cmd = ["cargo", "kani", "--target-dir", target_dir(group) + "_pb",
           "-Z", "stubbing", "-Z", "unstable-options", "-Z", "concrete-playback",
           "--concrete-playback=print", "--harness-timeout", "%ds" % group.timeout,
           "--exact", "--harness", harness]
    if group.features:
        cmd += ["--features", ",".join(group.features)]
    cmd += list(group.extra_kani)
    if group.cbmc_args:
        cmd += ["--cbmc-args"] + list(group.cbmc_args)
    try:
        p = subprocess.run(cmd, cwd=HARNESS, env=_env(),
                           stdout=subprocess.PIPE, stderr=subprocess.STDOUT,
                           timeout=group.timeout + 300, text=True, errors="replace")
        out = p.stdout
    except subprocess.TimeoutExpired as e:
        out = (e.stdout or b"").decode(errors="replace") if isinstance(e.stdout, bytes) else (e.stdout or "")
    with open(os.path.join(run_dir, "playback_" + re.sub(r"\W", "_", harness) + ".log"), "w") as f:
        f.write(out)
    tests = re.findall(r"```\n(.*?)```", out, re.S)
    # playback also emits tests for satisfied cover statements; keep failures only
    tests = [t for t in tests if "Check for `cover`" not in t]
    return tests


def native_replay(group, harness, tests, replay_dir):
    """Paste the playback tests into a scratch copy of the harness crate and run
    them natively (real code, no solver) in the dev and the release profile.
    Returns dict profile -> 'reproduced' | 'not-reproduced' | 'build-error'."""
    scratch = os.path.join(replay_dir, "crate")
    if os.path.exists(scratch):
        shutil.rmtree(scratch)
    os.makedirs(scratch)
    for item in ("Cargo.toml", "Cargo.lock", ".cargo", "src"):
        src = os.path.join(HARNESS, item)
        dst = os.path.join(scratch, item)
        if os.path.isdir(src):
            shutil.copytree(src, dst)
        else:
            shutil.copy(src, dst)
    body = []
    for i, t in enumerate(tests):
        t = re.sub(r"kani::concrete_playback_run\(concrete_vals, \w+\)",
                   "kani::concrete_playback_run(concrete_vals, crate::%s)" % harness, t)
        t = re.sub(r"fn kani_concrete_playback_\w+\(\)", "fn kani_concrete_playback_%d()" % i, t)
        body.append(t)
    with open(os.path.join(scratch, "src", "lib.rs"), "a") as f:
        f.write("\n#[cfg(kani)]\nmod playback_gen {\n" + "\n".join(body) + "\n}\n")
    verdict = {}
    for profile, extra_env in (("dev", {}), ("release", {"CARGO_PROFILE_TEST_OPT_LEVEL": "3",
                                                           "CARGO_PROFILE_TEST_DEBUG_ASSERTIONS": "false",
                                                           "CARGO_PROFILE_TEST_OVERFLOW_CHECKS": "false",
                                                           "CARGO_PROFILE_DEV_OPT_LEVEL": "3",
                                                           "CARGO_PROFILE_DEV_DEBUG_ASSERTIONS": "false",
                                                           "CARGO_PROFILE_DEV_OVERFLOW_CHECKS": "false"})):
        env = _env()
        env.update(extra_env)
        env["CARGO_TARGET_DIR"] = os.path.join(WORK, "td_playback_" + profile)
        cmd = ["cargo", "kani", "playback", "-Z", "concrete-playback"]
        if group.features:
            cmd += ["--features", ",".join(group.features)]
        cmd += ["--", "kani_concrete_playback"]
        try:
            p = subprocess.run(cmd, cwd=scratch, env=env, stdout=subprocess.PIPE,
                               stderr=subprocess.STDOUT, timeout=900, text=True, errors="replace")
            out = p.stdout
        except subprocess.TimeoutExpired:
            out = "TIMEOUT"
        with open(os.path.join(replay_dir, "native_%s.log" % profile), "w") as f:
            f.write(out)
        m = re.search(r"test result: (\w+)\. (\d+) passed; (\d+) failed", out)
        if not m:
            verdict[profile] = "build-error"
        elif int(m.group(3)) > 0:
            verdict[profile] = "reproduced"
        else:
            verdict[profile] = "not-reproduced"
    shutil.rmtree(os.path.join(scratch, "src"), ignore_errors=True)
    return verdict
