#!/bin/bash
# runall.sh <tier> [ids...] : run checks sequentially on the current tree, summary at the end.
cd "$(dirname "$0")/.."
tier=${1:-quick}; shift
ids=${@:-$(python3 -c "import json;print(' '.join(c['property_id'] for c in json.load(open('MANIFEST.json'))['checks']))")}
mkdir -p work/runall
for p in $ids; do
  s=$(date +%s)
  ./check $p --tier $tier > work/runall/${p}_$tier.log 2>&1
  rc=$?
  echo "$p $tier rc=$rc $(( $(date +%s) - s ))s $(grep -E '^(VIOLATION|ERROR|KNOWN-FINDING)' work/runall/${p}_$tier.log | head -3 | tr '\n' ' ')"
done
